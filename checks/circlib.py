"""
Shared by C01 / C15 (and usable by C02 / C10): generator of acyclic circuits made of library
CBlocks over Input / Counter sources, the real-circuit builder, and the C01 oracle
(fixed point of every CBlock when idle + per-evaluation specification + Compare history).

Circuit description (JSON):

spec = {
  'sources': [{'name', 'kind': 'input'|'counter'|'ainit'|'astop', 'dom': 'bool'|'int'|'mixed',
               'init': VAL, 'modulo': None|int, 'dur': float, 'fed': bool, 'events': [EV]}],
  'cblocks': [{'name', 'type': 'Not'|'And'|'Or'|'Xor'|'Override'|'Compare'|'Func',
               'low', 'high', 'null': VAL, 'func': name, 'unpack': bool,
               'pos': [REF] | None, 'kw': {iname: REF | {'g': [REF]}}, 'events': [EV]}],
  'recorders': [name],              # probe SBlocks that log what they receive (C15)
  'order': [name],                  # creation order (independent of the topological order)
}
REF = ['o', name]   block object            ['n', name]   block name
      ['!', name]   '_not_NAME' shortcut    ['c', VAL]    raw constant   ['C', VAL]  Const(VAL)
EV  = {'dest': name, 'etype': str, 'byname': bool,
       'filters': [['ifo', style, name] | ['addout', key, style, name]],   style in o n !
       'cond': {'t': etype|None, 'f': etype|None}}     optional: EventCond(t, f); the event
       type 'bogus' is unknown to every destination (non-fatal EdzedUnknownEvent)
VAL = JSON scalar | {'t': [VAL]} (tuple)
"""

from __future__ import annotations

import asyncio
import re

from simkit import seams
from simkit.runner import PlanError, canon
from models import cblock_model as cm

edzed = seams.install()


# ---------------------------------------------------------------------------- values

def enc(v):
    if isinstance(v, tuple):
        return {'t': [enc(i) for i in v]}
    return v


def dec(j):
    if isinstance(j, dict):
        return tuple(dec(i) for i in j['t'])
    if isinstance(j, list):
        raise PlanError('bad value')
    return j


_ADDR = re.compile(r' at 0x[0-9a-fA-F]+')


def cerr(err):
    """Exception -> text without object addresses (the trace must be reproducible)."""
    if err is None:
        return None
    return _ADDR.sub('', f"{type(err).__name__}: {err}")


def is_num(v):
    return isinstance(v, (bool, int, float))


def reveal(v):
    """repr with the type made explicit for every element (for messages and traces)."""
    if isinstance(v, tuple):
        return '(' + ', '.join(reveal(i) for i in v) + ')'
    if v is edzed.UNDEF:
        return '<UNDEF>'
    return f"{type(v).__name__}:{v!r}"


# ---------------------------------------------------------------------------- user functions
# (user supplied code for FuncBlock: the model applies the very same Python function)

def _flat(args, kwargs):
    out = []
    for a in args:
        if isinstance(a, tuple):
            out.extend(a)
        else:
            out.append(a)
    for k in sorted(kwargs):
        v = kwargs[k]
        if isinstance(v, tuple):
            out.extend(v)
        else:
            out.append(v)
    return out


def f_repr(*args, **kwargs):
    return repr((args, sorted(kwargs.items())))


def f_types(*args, **kwargs):
    def tn(v):
        if isinstance(v, tuple):
            return '(' + ','.join(tn(i) for i in v) + ')'
        return type(v).__name__
    return ' '.join([tn(a) for a in args] + [f"{k}={tn(kwargs[k])}" for k in sorted(kwargs)])


def f_pack(*args, **kwargs):
    return (args, tuple(sorted(kwargs.items())))


def f_count(*args, **kwargs):
    return sum(1 for v in _flat(args, kwargs) if v)


def f_sum(*args, **kwargs):
    return sum(_flat(args, kwargs))


def f_first(*args, **kwargs):
    if args:
        return args[0]
    for k in sorted(kwargs):
        return kwargs[k]
    return None


def f_nargs(*args, **kwargs):
    return len(args) * 10 + len(kwargs)


def f_seven():
    return 7


FUNCS = {'repr': f_repr, 'types': f_types, 'pack': f_pack, 'count': f_count, 'sum': f_sum,
         'first': f_first, 'nargs': f_nargs, 'seven': f_seven}
FUNC_NUM = {'count': True, 'sum': True, 'nargs': True, 'seven': True}    # numeric result
FUNC_NEEDS_NUM = {'sum'}

CONST_FAMILIES = [0, False, 0.0, 1, True, 1.0]
CONST_NUM = CONST_FAMILIES + [2, -1, 0.5, -0.0, 3]
CONST_ANY = CONST_NUM + [None, 'txt', '', (1, 2), (), (True,), (1,), None]

DOMAINS = {
    'bool': [False, True],
    'int': [-2, -1, 0, 1, 2, 3, 5, 6],
    'mixed': [None, 0, 1, True, False, 1.0, 0.0, '', 'x', (), (1,), (0, 'a'), 2.5],
}


# ---------------------------------------------------------------------------- spec helpers

def iter_refs(cb):
    """Yield (iname, index|None, ref) of a cblock description, in connect() order."""
    if cb.get('pos'):
        for i, ref in enumerate(cb['pos']):
            yield '_', i, ref
    for iname, val in (cb.get('kw') or {}).items():
        if isinstance(val, dict):
            for i, ref in enumerate(val.get('g', [])):
                yield iname, i, ref
        else:
            yield iname, None, val


def spec_names(spec):
    return ([s['name'] for s in spec['sources']] + [c['name'] for c in spec['cblocks']]
            + list(spec.get('recorders', [])))


def node_num(spec):
    """Which nodes have a numeric output (fixed point over the topological structure)."""
    num = {}
    for s in spec['sources']:
        num[s['name']] = s['kind'] == 'counter' or s.get('dom') in ('bool', 'int')
    cbs = {c['name']: c for c in spec['cblocks']}

    def ref_num(ref, seen):
        tag, arg = ref
        if tag == '!':
            return True
        if tag in 'cC':
            return is_num(dec(arg))
        return calc(arg, seen)

    def calc(name, seen):
        if name in num:
            return num[name]
        if name in seen or name not in cbs:
            return False
        seen = seen | {name}
        cb = cbs[name]
        typ = cb['type']
        if typ in ('Not', 'And', 'Or', 'Xor', 'Compare'):
            res = True
        elif typ == 'Override':
            res = all(ref_num(r, seen) for _n, _i, r in iter_refs(cb))
        elif typ == 'Func':
            res = bool(FUNC_NUM.get(cb.get('func')))
            if cb.get('func') == 'first':
                # the first positional (else the first named) input itself - with unpack only
                pos = cb.get('pos') or []
                kwv = cb.get('kw') or {}
                if not cb.get('unpack', True):
                    res = False
                elif pos:
                    res = ref_num(pos[0], seen)
                else:
                    res = bool(kwv) and not any(isinstance(v, dict) for v in kwv.values()) \
                        and all(ref_num(v, seen) for v in kwv.values())
        else:
            res = False
        num[name] = res
        return res
    for name in cbs:
        calc(name, frozenset())
    return num


BOGUS = 'bogus'     # an event type no block knows


def ev_etypes(ev):
    """The event types an EV can deliver (None branches of a conditional event dropped)."""
    cond = ev.get('cond')
    if cond:
        return [e for e in (cond.get('t'), cond.get('f')) if e is not None]
    return [ev['etype']]


def effective_order(spec):
    """Creation order; tolerant of minimised plans (blocks removed from one list only)."""
    names = spec_names(spec)
    known = set(names)
    out = []
    for n in spec.get('order', []):
        if n in known and n not in out:
            out.append(n)
    for n in names:
        if n not in out:
            out.append(n)
    return out


def validate_spec(spec):
    """Raise PlanError for descriptions that cannot be built (minimised plans)."""
    try:
        names = spec_names(spec)
        if len(set(names)) != len(names):
            raise PlanError('duplicate names')
        known = set(names)
        srcs = {s['name']: s for s in spec['sources']}
        cbs = {c['name']: c for c in spec['cblocks']}
        recs = set(spec.get('recorders', []))
        num = node_num(spec)
        # acyclic (connections and events)
        edges = {n: set() for n in names}
        for cb in spec['cblocks']:
            refs = list(iter_refs(cb))
            if cb['type'] == 'Func' and cb.get('func') == 'seven':
                if refs:
                    raise PlanError('seven has no inputs')
            elif not refs and not (cb.get('kw') or {}):
                raise PlanError('cblock without inputs')
            for _n, _i, (tag, arg) in refs:
                if tag in 'on!':
                    if arg not in srcs and arg not in cbs:
                        raise PlanError(f"reference to missing block {arg}")
                    edges[cb['name']].add(arg)
                elif tag in 'cC':
                    v = dec(arg)
                    if tag == 'c' and isinstance(v, (str, tuple)):
                        raise PlanError('raw str/tuple constant')
                else:
                    raise PlanError('bad ref')
            typ = cb['type']
            npos = len(cb.get('pos') or [])
            kw = cb.get('kw') or {}
            if typ in ('Not', 'Compare') and (npos != 1 or kw):
                raise PlanError('signature')
            if typ in ('And', 'Or', 'Xor') and (npos < 1 or kw):
                raise PlanError('signature')
            if typ == 'Override' and (npos or set(kw) != {'input', 'override'}
                                      or any(isinstance(v, dict) for v in kw.values())):
                raise PlanError('signature')
            if typ == 'Compare':
                tag, arg = cb['pos'][0]
                ok = (tag == '!' or (tag in 'cC' and is_num(dec(arg)))
                      or (tag in 'on' and num.get(arg)))
                if not ok or not cb['low'] <= cb['high']:
                    raise PlanError('Compare needs a numeric input and low <= high')
            if typ == 'Func':
                if cb.get('func') not in FUNCS:
                    raise PlanError('unknown function')
                if cb['func'] in FUNC_NEEDS_NUM:
                    for _n, _i, (tag, arg) in refs:
                        ok = (tag == '!' or (tag in 'cC' and is_num(dec(arg)))
                              or (tag in 'on' and num.get(arg)))
                        if not ok:
                            raise PlanError('sum needs numeric inputs')
            if '_' in kw:
                raise PlanError("input name '_'")
        for blk in list(spec['sources']) + list(spec['cblocks']):
            for ev in blk.get('events', []):
                dest = ev['dest']
                if dest in recs:
                    pass
                elif dest in srcs:
                    edges[dest].add(blk['name'])
                    d = srcs[dest]
                    for etype in ev_etypes(ev):
                        if etype == BOGUS and ev.get('cond'):
                            continue
                        if d['kind'] == 'counter':
                            if etype not in ('inc', 'dec', 'put', 'reset'):
                                raise PlanError('counter event')
                            if etype == 'put' and not num.get(blk['name']):
                                raise PlanError('counter put needs a number')
                        elif etype != 'put':
                            raise PlanError('input event')
                else:
                    raise PlanError('event destination missing')
                for flt in ev.get('filters', []):
                    if flt[0] not in ('ifo', 'addout') or flt[-1] not in known \
                            or flt[-2] not in ('o', 'n', '!'):
                        raise PlanError('bad filter')
                    if flt[-2] == '!' and flt[-1] in recs:
                        raise PlanError('bad filter')
        # numeric sources that feed Compare/sum must stay numeric: events into them too
        for s in spec['sources']:
            if s['kind'] == 'input' and s.get('dom') in ('bool', 'int'):
                for blk in list(spec['sources']) + list(spec['cblocks']):
                    for ev in blk.get('events', []):
                        if ev['dest'] == s['name'] and 'put' in ev_etypes(ev) \
                                and not num.get(blk['name']):
                            raise PlanError('non-numeric event into a numeric input')
        # an event that fails with the non-fatal EdzedUnknownEvent is only reachable from the
        # driver: its owner is a source that no other block sends events to, and the value the
        # owner is initialised with takes the other branch
        incoming = set()
        for blk in list(spec['sources']) + list(spec['cblocks']):
            for ev in blk.get('events', []):
                incoming.add(ev['dest'])
        for blk in list(spec['sources']) + list(spec['cblocks']):
            for ev in blk.get('events', []):
                cond = ev.get('cond')
                if cond is None:
                    continue
                if BOGUS in (cond.get('t'), cond.get('f')):
                    if blk['name'] not in srcs or blk['name'] in incoming \
                            or blk.get('kind') == 'ainit':
                        raise PlanError('failing event of a block that is not driver-only')
                    if cond.get('t' if dec(blk['init']) else 'f') == BOGUS:
                        raise PlanError('the initial value would take the failing branch')
        state = {}

        def visit(n):
            if state.get(n) == 2:
                return
            if state.get(n) == 1:
                raise PlanError('cycle')
            state[n] = 1
            for m in sorted(edges[n]):
                visit(m)
            state[n] = 2
        for n in names:
            visit(n)
    except PlanError:
        raise
    except (KeyError, TypeError, ValueError, IndexError, AttributeError) as err:
        raise PlanError(f"malformed spec: {type(err).__name__}: {err}") from None


# ---------------------------------------------------------------------------- generation

def gen_const(rng, need_num=False):
    pool = CONST_NUM if need_num else CONST_ANY
    v = rng.choice(CONST_FAMILIES) if rng.random() < 0.6 else rng.choice(pool)
    if isinstance(v, (str, tuple)) or rng.random() < 0.45:
        return ['C', enc(v)]
    return ['c', enc(v)]


def pick_ref(rng, nodes, num, need_num=False, p_const=0.18, p_not=0.14):
    """nodes: list of names in topological order; returns a REF with style 'o' (fixed later)."""
    r = rng.random()
    if r < p_const or not nodes:
        return gen_const(rng, need_num)
    cands = [n for n in nodes if num[n]] if need_num else list(nodes)
    if not cands:
        return gen_const(rng, True)
    if r < p_const + p_not:
        return ['!', rng.choice(nodes)]
    if rng.random() < 0.5:
        recent = cands[-3:]
        return ['o', rng.choice(recent)]
    return ['o', rng.choice(cands)]


def gen_cblock(rng, name, nodes, num):
    have_num = any(num[n] for n in nodes)
    types = ['Not', 'And', 'Or', 'Xor', 'Override', 'Func', 'Func', 'Func', 'Compare']
    if have_num:
        types.append('Compare')
    typ = rng.choice(types)
    cb = {'name': name, 'type': typ, 'pos': None, 'kw': {}, 'events': []}
    if typ == 'Not':
        cb['pos'] = [pick_ref(rng, nodes, num)]
    elif typ in ('And', 'Or', 'Xor'):
        cb['pos'] = [pick_ref(rng, nodes, num) for _ in range(rng.choice([1, 2, 2, 3, 4]))]
    elif typ == 'Override':
        cb['null'] = enc(rng.choice([None, None, 0, False, 'x', (1,), 1]))
        cb['kw'] = {'input': pick_ref(rng, nodes, num), 'override': pick_ref(rng, nodes, num)}
        if rng.random() < 0.3:
            # an override constant equal to (but not identical with) the null value
            null = dec(cb['null'])
            alt = {0: False, False: 0, 1: True}.get(null, null) if is_num(null) else null
            cb['kw']['override'] = ['C' if isinstance(alt, (str, tuple)) else 'c', enc(alt)]
    elif typ == 'Compare':
        low = rng.choice([0, 1, 2, -1, 0.5, 1.5])
        high = low + rng.choice([0, 1, 2, 3, 0.5])
        cb['low'], cb['high'] = low, high
        cb['pos'] = [pick_ref(rng, nodes, num, need_num=True, p_const=0.05, p_not=0.05)]
    else:
        func = rng.choice(['repr', 'repr', 'types', 'pack', 'count', 'sum', 'first', 'nargs'])
        cb['func'] = func
        cb['unpack'] = rng.random() < 0.6
        need = func in FUNC_NEEDS_NUM
        npos = rng.choice([0, 1, 1, 2, 3])
        if npos:
            cb['pos'] = [pick_ref(rng, nodes, num, need) for _ in range(npos)]
        for iname in rng.sample(['a', 'b', 'g', 'zz'], rng.choice([0, 0, 1, 1, 2])):
            if rng.random() < 0.5:
                cb['kw'][iname] = pick_ref(rng, nodes, num, need)
            else:
                cb['kw'][iname] = {'g': [pick_ref(rng, nodes, num, need)
                                         for _ in range(rng.choice([0, 1, 2, 3]))]}
        if not cb['pos'] and not cb['kw']:
            cb['pos'] = [pick_ref(rng, nodes, num, need)]
        if rng.random() < 0.15 and cb['pos']:
            # the same reference repeated
            cb['pos'].append(list(cb['pos'][0]))
    return cb


def gen_source(rng, name, fed=False):
    kind = 'counter' if rng.random() < 0.25 else 'input'
    src = {'name': name, 'kind': kind, 'fed': fed, 'events': []}
    if kind == 'counter':
        src['dom'] = 'int'
        src['modulo'] = rng.choice([None, None, 3, 5])
        src['init'] = rng.choice([0, 0, 1, 2])
    else:
        src['dom'] = rng.choice(['bool', 'bool', 'int', 'mixed'])
        src['init'] = enc(rng.choice(DOMAINS[src['dom']]))
    return src


def gen_spec(rng, *, max_cblocks=8, ainit=None):
    """Random acyclic circuit."""
    sources, cblocks, nodes, num = [], [], [], {}
    for i in range(rng.randint(1, 3)):
        s = gen_source(rng, f"s{i}")
        sources.append(s)
        nodes.append(s['name'])
    if ainit is None:
        ainit = rng.random() < 0.12
    if ainit:
        s = {'name': 'ai', 'kind': 'ainit', 'dom': rng.choice(['bool', 'int']), 'fed': False,
             'events': [], 'dur': rng.choice([0.5, 1.0, 2.0])}
        s['init'] = enc(rng.choice(DOMAINS[s['dom']]))
        sources.append(s)
        nodes.append('ai')
    spec = {'sources': sources, 'cblocks': cblocks, 'recorders': [], 'order': []}
    num.update(node_num(spec))
    ncb = rng.randint(1, max_cblocks)
    nfed = 0
    for i in range(ncb):
        if cblocks and nfed < 2 and len(sources) < 4 + bool(ainit) and rng.random() < 0.22:
            # a source of the second layer: fed by events of earlier CBlocks
            name = f"s{len(sources)}"
            senders = rng.sample(cblocks, min(len(cblocks), rng.choice([1, 1, 2])))
            allnum = all(num[c['name']] for c in senders)
            s = gen_source(rng, name, fed=True)
            if s['kind'] == 'input':
                s['dom'] = rng.choice(['bool', 'int']) if allnum and rng.random() < 0.6 else 'mixed'
                s['init'] = enc(rng.choice(DOMAINS[s['dom']]))
            for c in senders:
                if s['kind'] == 'counter':
                    etype = rng.choice(['inc', 'dec', 'put'] if num[c['name']] else ['inc', 'dec'])
                else:
                    etype = 'put'
                c['events'].append({'dest': name, 'etype': etype, 'byname': True, 'filters': []})
            sources.append(s)
            nodes.append(name)
            num[name] = s['kind'] == 'counter' or s['dom'] != 'mixed'
            nfed += 1
        cb = gen_cblock(rng, f"c{i}", nodes, num)
        cblocks.append(cb)
        nodes.append(cb['name'])
        num.clear()
        num.update(node_num(spec))
    # source -> later fed source forwards (several sequential blocks change in one call)
    fed = [s for s in sources if s['fed'] and s['kind'] == 'input' and s['dom'] == 'mixed']
    for s in sources:
        if not s['fed'] and s['kind'] != 'ainit' and fed and rng.random() < 0.2:
            s['events'].append({'dest': rng.choice(fed)['name'], 'etype': 'put', 'byname': True,
                                'filters': []})
    add_failing_events(rng, spec)
    finish_spec(rng, spec)
    return spec


def add_failing_events(rng, spec, prob=0.2):
    """
    Give some driver-only sources an on_output event whose type depends on the new value
    (EventCond) and is unknown to the destination for one of the two edges: the sender of the
    external event gets the documented non-fatal EdzedUnknownEvent, the output has changed.
    """
    sources = spec['sources']
    incoming = set()
    for blk in list(sources) + list(spec['cblocks']):
        for ev in blk.get('events', []):
            incoming.add(ev['dest'])
    owners = [s for s in sources if s['name'] not in incoming and s['kind'] != 'ainit'
              and rng.random() < prob][:2]
    if not owners:
        return
    num = node_num(spec)
    for s in owners:
        dests = [d for d in sources if d not in owners and d['kind'] != 'ainit']
        if not dests or rng.random() < 0.4:
            d = {'name': f"s{len(sources)}", 'kind': 'counter', 'dom': 'int', 'fed': True,
                 'modulo': rng.choice([None, 4]), 'init': 0, 'events': []}
            sources.append(d)
        else:
            d = rng.choice(dests)
        if d['kind'] == 'counter':
            good = rng.choice(['inc', 'inc', 'dec', None] + (['put'] if num[s['name']] else []))
        elif d.get('dom') == 'mixed' or num[s['name']]:
            good = rng.choice(['put', None])
        else:
            good = None
        bad_branch = 'f' if dec(s['init']) else 't'
        cond = {'t': good, 'f': good}
        cond[bad_branch] = BOGUS
        ev = {'dest': d['name'], 'etype': 'cond', 'cond': cond, 'byname': True, 'filters': []}
        # position among the other on_output events matters (the later ones are not sent)
        s['events'].insert(rng.randint(0, len(s['events'])), ev)


def gen_chain_spec(rng):
    """
    Acyclic circuit with a chain of event feedback: q0 -> f0 => q1 -> f1 => q2 ... ('=>' is an
    on_output 'put' event of a CBlock to the next source) and 'wide' CBlocks over q0..q_span
    which are evaluated again in every round up to their span. A forwarder f_i may also read
    wide blocks of span <= i (still acyclic through events): the simulator's ordering
    heuristic then evaluates everything that is pending before the next round starts, so one
    external change of q0 needs up to (chain length) evaluations of each wide block in a
    single burst. Bystander sources make the ratio SBlocks : CBlocks vary.
    """
    k = rng.choice([2, 3, 4, 4, 5, 5, 6, 6])
    sources, cblocks = [], []
    for i in range(k):
        sources.append({'name': f"q{i}", 'kind': 'input', 'dom': 'int', 'init': 0,
                        'fed': i > 0, 'events': []})
    chain = [s['name'] for s in sources]
    spec = {'sources': sources, 'cblocks': cblocks, 'recorders': [], 'order': []}
    for i in range(rng.choice([0, 0, 1, 2, 3, 4, 6])):
        sources.append(gen_source(rng, f"z{i}"))
    others = [s['name'] for s in sources if s['name'] not in chain]
    num = node_num(spec)
    wide = []       # (name, span)
    for j in range(rng.choice([1, 2, 3, 3, 4, 5, 6])):
        span = k - 1 if rng.random() < 0.5 else rng.randrange(k)
        typ = rng.choice(['And', 'Or', 'Xor', 'Func', 'Func', 'Func'])
        ins = [c for c in chain[:span] if rng.random() < 0.85] + [chain[span]]
        refs = [['o', c] for c in ins]
        func = rng.choice(['pack', 'count', 'sum', 'repr', 'types']) if typ == 'Func' else None
        if others and rng.random() < 0.3:
            cand = [o for o in others if num[o] or func != 'sum']
            if cand:
                refs.append(['o', rng.choice(cand)])
        if wide and rng.random() < 0.25:
            cand = [w for w, sp in wide if sp <= span and (num[w] or func != 'sum')]
            if cand:
                refs.append(['o', rng.choice(cand)])
        if rng.random() < 0.2:
            refs.append(['!', rng.choice(chain[:span + 1])])
        rng.shuffle(refs)
        cb = {'name': f"w{j}", 'type': typ, 'pos': refs, 'kw': {}, 'events': []}
        if typ == 'Func':
            cb['func'] = func
            cb['unpack'] = rng.random() < 0.6
            if rng.random() < 0.3 and len(refs) > 2:
                cb['kw'] = {'g': {'g': refs[2:]}}
                cb['pos'] = refs[:2]
        cblocks.append(cb)
        wide.append((cb['name'], span))
        num = node_num(spec)
    deps = rng.random() < 0.7
    for i in range(k - 1):
        cb = {'name': f"f{i}", 'type': 'Func', 'func': 'first', 'unpack': True,
              'pos': [['o', chain[i]]], 'kw': {}, 'events': [
                  {'dest': chain[i + 1], 'etype': 'put', 'byname': True, 'filters': []}]}
        gates = [w for w, sp in wide if sp <= i]
        if deps and not gates and rng.random() < 0.8:
            # a gate of its own: a wide block over q0..q_i
            gname = f"g{i}"
            cblocks.append({'name': gname, 'type': rng.choice(['Or', 'Xor', 'And']),
                            'pos': [['o', c] for c in chain[:i + 1]], 'kw': {}, 'events': []})
            wide.append((gname, i))
            gates = [gname]
        if deps and gates:
            sub = [w for w in gates if rng.random() < 0.7] or [rng.choice(gates)]
            cb['kw'] = {'g': {'g': [['o', w] for w in sub]}}
        elif rng.random() < 0.3:
            cb = dict(cb, type='Override', null=0, pos=None,
                      kw={'input': ['o', chain[i]], 'override': ['c', False]})
            cb.pop('func'), cb.pop('unpack')
        cblocks.append(cb)
    if others and rng.random() < 0.5:
        cblocks.append({'name': 'wz', 'type': rng.choice(['Or', 'Xor']),
                        'pos': [['o', o] for o in others[:4]], 'kw': {}, 'events': []})
    add_failing_events(rng, spec, prob=0.1)
    finish_spec(rng, spec)
    return spec


# block names: ordinary ones and ones that begin with the characters of '_not_', that are
# prefixes / suffixes of each other, that contain 'not'
NAME_POOL = ['temp', 'emp', 'mp', 'out', 'ut', 'on', 'off', 'n', 'o', 't', 'no', 'not_x', 'x',
             'n1', 'tnt', 'to', 'toto', 'onto', 'noon', 'tt', 'o_o', 'ton', 'tone', 'one', 'note',
             'e', 'src', 'enable', 'door', 'b7', 'not', 'knot', 'nota', 'a_not_b', 'ot', 'tn',
             'On', 'T', 'n_', 'o1', 't2', 'lamp', 'amp', 'input', 'put', 'nn', 'oo']
KEEP_NAMES = ('fz',)


def rename_plan(rng, plan, prob=0.7):
    """Give a random subset of the blocks names from NAME_POOL (consistently in the plan)."""
    spec = plan['spec']
    names = [n for n in spec_names(spec) if n not in KEEP_NAMES]
    pool = [n for n in NAME_POOL if n not in names]
    rng.shuffle(pool)
    mapping = {}
    for n in names:
        if pool and rng.random() < prob:
            mapping[n] = pool.pop()
    if not mapping:
        return
    ren = lambda n: mapping.get(n, n)      # noqa: E731
    for blk in list(spec['sources']) + list(spec['cblocks']):
        blk['name'] = ren(blk['name'])
        for ev in blk.get('events', []):
            ev['dest'] = ren(ev['dest'])
            for flt in ev.get('filters', []):
                flt[-1] = ren(flt[-1])
    for cb in spec['cblocks']:
        for _n, _i, ref in iter_refs(cb):
            if ref[0] in 'on!':
                ref[1] = ren(ref[1])
    spec['recorders'] = [ren(n) for n in spec.get('recorders', [])]
    spec['order'] = [ren(n) for n in spec.get('order', [])]
    for op in list(plan.get('ops', [])) + list(plan.get('pre', [])):
        if 'src' in op:
            op['src'] = ren(op['src'])
    inv = plan.get('invalid')
    if inv:
        for key in ('at', 'a', 'b', 'c'):
            if inv.get(key) is not None:
                inv[key] = ren(inv[key])
    for le in plan.get('late_events') or []:
        le['dest'] = ren(le['dest'])
        le['src'] = ren(le['src'])
        for flt in le.get('filters', []):
            flt[-1] = ren(flt[-1])


def finish_spec(rng, spec):
    """Draw the creation order and fix the reference styles accordingly."""
    order = spec_names(spec)
    rng.shuffle(order)
    if spec.get('recorders') and rng.random() < 0.5:
        order = list(spec['recorders']) + [n for n in order if n not in spec['recorders']]
    spec['order'] = order
    pos = {n: i for i, n in enumerate(order)}
    for blk in spec['cblocks']:
        for _n, _i, ref in iter_refs(blk):
            if ref[0] in 'on':
                earlier = pos[ref[1]] < pos[blk['name']]
                ref[0] = 'o' if earlier and rng.random() < 0.5 else 'n'
    for blk in list(spec['cblocks']) + list(spec['sources']):
        for ev in blk.get('events', []):
            earlier = pos[ev['dest']] < pos[blk['name']]
            ev['byname'] = not (earlier and rng.random() < 0.5)
            for flt in ev.get('filters', []):
                if flt[-2] == 'o' and not pos[flt[-1]] < pos[blk['name']]:
                    flt[-2] = 'n'


# systematic small shapes: <=3 CBlocks of Not/And/Or/Xor over two boolean inputs
_SMALL_OPTS = []
for _i in range(3):
    _m = 2 + _i
    _opts = [('Not', (j,)) for j in range(_m)]
    for _t in ('And', 'Or', 'Xor'):
        for _j in range(_m):
            for _k in range(_j, _m):
                _opts.append((_t, (_j, _k)))
    _SMALL_OPTS.append(_opts)
SMALL_COUNTS = [len(_SMALL_OPTS[0]),
                len(_SMALL_OPTS[0]) * len(_SMALL_OPTS[1]),
                len(_SMALL_OPTS[0]) * len(_SMALL_OPTS[1]) * len(_SMALL_OPTS[2])]
SMALL_TOTAL = sum(SMALL_COUNTS)     # 11 + 231 + 7854 = 8096

# a closed walk over the four input vectors using each of the 12 ordered transitions once
EULER_WALK = [0, 1, 0, 2, 0, 3, 1, 2, 1, 3, 2, 3, 0]


def small_shape(index):
    """index in [0, SMALL_TOTAL) -> list of (type, input node indices); nodes 0,1 = inputs."""
    n = 1
    while index >= SMALL_COUNTS[n - 1]:
        index -= SMALL_COUNTS[n - 1]
        n += 1
    shape = []
    for i in range(n):
        opts = _SMALL_OPTS[i]
        shape.append(opts[index % len(opts)])
        index //= len(opts)
    return shape


def gen_small(rng, index):
    """The systematic stratum: (spec, ops) for small shape number index."""
    shape = small_shape(index)
    names = ['a', 'b'] + [f"c{i}" for i in range(len(shape))]
    sources = [{'name': n, 'kind': 'input', 'dom': 'bool', 'init': False, 'fed': False,
                'events': []} for n in ('a', 'b')]
    cblocks = []
    for i, (typ, ins) in enumerate(shape):
        cblocks.append({'name': f"c{i}", 'type': typ, 'pos': [['o', names[j]] for j in ins],
                        'kw': {}, 'events': []})
    if rng.random() < 0.25:
        # one more block behind an inverted-output shortcut
        cblocks.append({'name': 'cx', 'type': rng.choice(['And', 'Or', 'Xor']),
                        'pos': [['!', names[-1]], ['o', rng.choice(names)]], 'kw': {},
                        'events': []})
    spec = {'sources': sources, 'cblocks': cblocks, 'recorders': [], 'order': []}
    finish_spec(rng, spec)
    ops = []
    cur = 0
    for nxt in EULER_WALK[1:]:
        sends = []
        if (cur ^ nxt) & 1:
            sends.append({'op': 'send', 'src': 'a', 'ev': 'put', 'value': bool(nxt & 1)})
        if (cur ^ nxt) & 2:
            sends.append({'op': 'send', 'src': 'b', 'ev': 'put', 'value': bool(nxt & 2)})
        rng.shuffle(sends)
        ops.extend(sends)
        ops.append({'op': 'yield' if rng.random() < 0.2 else 'settle'})
        cur = nxt
    ops.append({'op': 'settle'})
    return spec, ops


def gen_send(rng, src):
    if src['kind'] == 'counter':
        ev = rng.choice(['inc', 'inc', 'dec', 'put', 'reset'])
        op = {'op': 'send', 'src': src['name'], 'ev': ev}
        if ev == 'put':
            op['value'] = rng.choice([0, 1, 2, 3, 4, -1])
        elif ev != 'reset' and rng.random() < 0.3:
            op['amount'] = rng.choice([1, 2, 3])
        return op
    return {'op': 'send', 'src': src['name'], 'ev': 'put',
            'value': enc(rng.choice(DOMAINS[src['dom']]))}


def gen_ops(rng, spec, max_bursts=8, focus=None):
    srcs = [s for s in spec['sources']]
    first = [s for s in srcs if s['name'] == focus]
    ops = []
    for _ in range(rng.randint(1, max_bursts)):
        for _k in range(rng.choice([1, 1, 2, 2, 3, 4])):
            if first and rng.random() < 0.6:
                ops.append(gen_send(rng, first[0]))
            else:
                ops.append(gen_send(rng, rng.choice(srcs)))
        ops.append({'op': 'yield' if rng.random() < 0.25 else 'settle'})
    ops.append({'op': 'settle'})
    return ops


def gen_pre(rng, spec):
    """Sends placed before the initialisation is complete."""
    pre = []
    ai = [s for s in spec['sources'] if s['kind'] == 'ainit']
    if rng.random() < (0.6 if ai else 0.2):
        for _ in range(rng.choice([1, 1, 2, 3])):
            op = gen_send(rng, rng.choice(spec['sources']))
            op['t'] = 0.0
            if ai and rng.random() < 0.7:
                op['t'] = round(rng.uniform(0.0, ai[0]['dur'] * 1.1), 3)
            pre.append(op)
        pre.sort(key=lambda o: o['t'])
    return pre


# ---------------------------------------------------------------------------- probe classes

class Rec(edzed.SBlock):
    """Accepts every event and logs it through x_sink(blk, etype, data)."""

    def init_regular(self):
        self.set_output(0)

    def _event(self, etype, data):
        self.x_sink(self, etype, data)
        return None


class AInit(edzed.AddonAsync, edzed.SBlock):
    """A source whose initialisation takes virtual time."""

    async def init_async(self):
        await asyncio.sleep(self.x_dur)
        if not self.is_initialized():
            self.set_output(self.x_value)

    def _event_put(self, *, value, **_data):
        self.set_output(value)
        return True


class AStop(edzed.AddonAsync, edzed.SBlock):
    """A source whose asynchronous clean-up (stop_async) takes virtual time."""

    def init_regular(self):
        self.set_output(self.x_value)

    def _event_put(self, *, value, **_data):
        self.set_output(value)
        return True

    async def stop_async(self):
        await asyncio.sleep(self.x_dur)


_ORIG_EVAL = edzed.CBlock.eval_block
_CURRENT = [None]


def _eval_wrapper(self):
    sim = _CURRENT[0]
    if sim is None or self.circuit is not sim.circuit:
        return _ORIG_EVAL(self)
    return sim.on_eval(self)


# ---------------------------------------------------------------------------- one execution

class Sim:
    """
    Builds the real circuit of a plan and carries the C01 oracle.
    prop: 'C01' or 'C15' (prefix of the violation signatures).
    """

    def __init__(self, run, plan, prop):
        self.run = run
        self.plan = plan
        self.prop = prop
        self.spec = plan['spec']
        self.circuit = None
        self.blocks = {}            # name -> real block (own bookkeeping, not the circuit's)
        self.events = []            # (owner name, EV, Event object, filter objects)
        self.cinfo = {}             # cblock name -> compiled description
        self.not_targets = set()    # X for every '_not_X' shortcut in the plan
        self.inited = False
        self.evals = []             # names evaluated since the last driver action
        self.last_burst = 0
        self.abort_burst = None
        self.n_evals = 0
        self.n_changes_after_init = 0
        self.rec_log = []           # deliveries seen by recorders
        self.cmp_track = {}
        self.eval_exc = None
        self.record_hook = None     # callable(recorder name, etype, data) or None
        self.ev_dests = {}          # cblock name -> names of the sources its events go to

    # ---- construction
    def real_ref(self, ref, owner):
        tag, arg = ref
        if tag == 'o':
            if arg not in self.blocks:
                raise PlanError(f"{owner}: object reference to {arg} which is created later")
            return self.blocks[arg]
        if tag == 'n':
            return arg
        if tag == '!':
            return '_not_' + arg
        if tag == 'c':
            return dec(arg)
        if tag == 'C':
            return edzed.Const(dec(arg))
        raise PlanError('bad ref')

    def make_event(self, owner, ev):
        filters = []
        fobjs = []
        for flt in ev.get('filters', []):
            style, name = flt[-2], flt[-1]
            if style == 'o':
                if name not in self.blocks:
                    raise PlanError('filter object reference to a later block')
                target = self.blocks[name]
            elif style == 'n':
                target = name
            else:
                target = '_not_' + name
            if flt[0] == 'ifo':
                f = edzed.IfOutput(target)
            else:
                f = edzed.DataEdit.add_output(flt[1], target)
            filters.append(f)
            fobjs.append(f)
        if ev['byname']:
            dest = ev['dest']
        else:
            if ev['dest'] not in self.blocks:
                raise PlanError('event object reference to a later block')
            dest = self.blocks[ev['dest']]
        cond = ev.get('cond')
        etype = edzed.EventCond(cond.get('t'), cond.get('f')) if cond else ev['etype']
        evobj = edzed.Event(dest, etype, efilter=filters or None)
        self.events.append((owner, ev, evobj, fobjs))
        return evobj

    def build_block(self, name):
        spec = self.spec
        for s in spec['sources']:
            if s['name'] == name:
                evs = [self.make_event(name, ev) for ev in s.get('events', [])]
                kw = {'on_output': evs} if evs else {}
                if s['kind'] == 'counter':
                    return edzed.Counter(name, modulo=s.get('modulo'), initdef=s['init'], **kw)
                if s['kind'] == 'astop':
                    return AStop(name, x_dur=s['dur'], x_value=dec(s['init']),
                                 stop_timeout=s['dur'] + 5.0, **kw)
                if s['kind'] == 'ainit':
                    return AInit(name, x_dur=s['dur'], x_value=dec(s['init']),
                                 init_timeout=s['dur'] + 5.0, **kw)
                return edzed.Input(name, initdef=dec(s['init']), **kw)
        for cb in spec['cblocks']:
            if cb['name'] == name:
                evs = [self.make_event(name, ev) for ev in cb.get('events', [])]
                kw = {'on_output': evs} if evs else {}
                typ = cb['type']
                if typ == 'Func':
                    blk = edzed.FuncBlock(name, func=FUNCS[cb['func']],
                                          unpack=cb.get('unpack', True), **kw)
                elif typ == 'Compare':
                    blk = edzed.Compare(name, low=cb['low'], high=cb['high'], **kw)
                elif typ == 'Override':
                    blk = edzed.Override(name, null_value=dec(cb.get('null')), **kw)
                else:
                    blk = {'Not': edzed.Not, 'And': edzed.And, 'Or': edzed.Or,
                           'Xor': edzed.Xor}[typ](name, **kw)
                args = [self.real_ref(r, name) for r in (cb.get('pos') or [])]
                kwargs = {}
                for iname, val in (cb.get('kw') or {}).items():
                    if isinstance(val, dict):
                        grp = [self.real_ref(r, name) for r in val.get('g', [])]
                        kwargs[iname] = grp if len(iname) % 2 else tuple(grp)   # list and tuple
                    else:
                        kwargs[iname] = self.real_ref(val, name)
                if args or kwargs:
                    blk.connect(*args, **kwargs)
                return blk
        if name in spec.get('recorders', []):
            return Rec(name, x_sink=self.on_record)
        raise PlanError(f"unknown block {name}")

    def build(self, hook=None):
        """
        Create all blocks in the planned creation order. hook(name) is called before the
        block 'name' is created (C15 injects invalid constructions there).
        """
        validate_spec(self.spec)
        self.circuit = edzed.get_circuit()
        for name in effective_order(self.spec):
            if hook is not None:
                hook(name)
            try:
                self.blocks[name] = self.build_block(name)
            except PlanError:
                raise
            except Exception as err:
                raise PlanError(f"building {name} failed: {type(err).__name__}: {err}") from None
        self.compile()

    def compile(self):
        for cb in self.spec['cblocks']:
            params = {}
            typ = cb['type']
            if typ == 'Compare':
                params = {'low': cb['low'], 'high': cb['high']}
            elif typ == 'Override':
                params = {'null_value': dec(cb.get('null'))}
            elif typ == 'Func':
                params = {'func': FUNCS[cb['func']], 'unpack': cb.get('unpack', True)}
            layout = []
            if cb.get('pos'):
                layout.append(('_', True, [tuple(r) for r in cb['pos']]))
            for iname, val in (cb.get('kw') or {}).items():
                if isinstance(val, dict):
                    layout.append((iname, True, [tuple(r) for r in val.get('g', [])]))
                else:
                    layout.append((iname, False, [tuple(val)]))
            self.cinfo[cb['name']] = (typ, params, layout)
            for _n, _i, ref in iter_refs(cb):
                if ref[0] == '!':
                    self.not_targets.add(ref[1])
        for blk in list(self.spec['sources']) + list(self.spec['cblocks']):
            for ev in blk.get('events', []):
                for flt in ev.get('filters', []):
                    if flt[-2] == '!':
                        self.not_targets.add(flt[-1])
        srcnames = {s['name'] for s in self.spec['sources']}
        for cb in self.spec['cblocks']:
            dests = [ev['dest'] for ev in cb.get('events', []) if ev['dest'] in srcnames]
            if dests:
                self.ev_dests[cb['name']] = dests
        for x in sorted(self.not_targets):
            self.cinfo['_not_' + x] = ('Not', {}, [('_', True, [('n', x)])])
        # Compare blocks fed directly by a source that only the driver changes
        incoming = set()
        for blk in list(self.spec['sources']) + list(self.spec['cblocks']):
            for ev in blk.get('events', []):
                incoming.add(ev['dest'])
        srcs = {s['name']: s for s in self.spec['sources']}
        for cb in self.spec['cblocks']:
            if cb['type'] == 'Compare':
                tag, arg = cb['pos'][0]
                if tag in 'on' and arg in srcs and arg not in incoming \
                        and srcs[arg]['kind'] != 'ainit':
                    self.cmp_track[cb['name']] = {'src': arg, 'legal': None, 'vals': []}

    # ---- values of the inputs as connected by the plan
    def ref_value(self, ref, mode):
        tag, arg = ref
        if tag in ('o', 'n'):
            return self.blocks[arg].output
        if tag == '!':
            if mode == 'eval':
                # the inverter block that is actually there (it may be mid-settling)
                return self.circuit.findblock('_not_' + arg).output
            return not self.blocks[arg].output
        return dec(arg)

    def input_values(self, name, mode):
        _typ, _params, layout = self.cinfo[name]
        ins = {}
        for iname, group, refs in layout:
            vals = tuple(self.ref_value(r, mode) for r in refs)
            ins[iname] = vals if group else vals[0]
        return ins

    @staticmethod
    def has_undef(ins):
        for v in ins.values():
            if v is edzed.UNDEF or (isinstance(v, tuple) and any(i is edzed.UNDEF for i in v)):
                return True
        return False

    def aliasing_diagnosis(self, name, observed):
        """
        Is the wrong output explained by constants that were replaced by an equal constant of
        another type (one shared Const object for 1 / True / 1.0)? Returns a description or None.
        """
        if name not in self.blocks or name.startswith('_not_'):
            return None
        typ, params, layout = self.cinfo[name]
        real = self.blocks[name].inputs
        found = []
        ins = {}
        try:
            for iname, group, refs in layout:
                robjs = real[iname] if group else (real[iname],)
                vals = []
                if len(robjs) != len(refs):
                    return None
                for ref, robj in zip(refs, robjs):
                    if ref[0] in 'cC':
                        want = dec(ref[1])
                        got = robj.output
                        if not isinstance(robj, edzed.Const) or want != got:
                            return None     # not (only) a matter of the constant's type
                        if reveal(want) != reveal(got):
                            found.append(f"{iname}: connected {reveal(want)}, the block reads "
                                         f"{reveal(got)}")
                        vals.append(got)
                    else:
                        want_blk = (self.circuit.findblock('_not_' + ref[1]) if ref[0] == '!'
                                    else self.blocks[ref[1]])
                        if robj is not want_blk:
                            return None
                        vals.append(self.ref_value(ref, 'eval'))
                ins[iname] = tuple(vals) if group else vals[0]
            if found and cm.is_legal(typ, params, ins, cm.UNDEF, observed):
                return '; '.join(found)
        except Exception:   # pylint: disable=broad-except
            return None
        return None

    # ---- oracle (b): every single evaluation
    def on_eval(self, blk):
        name = blk.name
        info = self.cinfo.get(name)
        prev = blk.output
        ins = None
        if info is not None:
            try:
                ins = self.input_values(name, 'eval')
            except KeyError:
                ins = None
        self.n_evals += 1
        if self.n_evals > 20000:
            raise RuntimeError('harness watchdog: more than 20000 evaluations in one run')
        self.evals.append(name)
        dests = self.ev_dests.get(name)
        before = [self.blocks[d].output for d in dests] if dests else None
        try:
            changed = _ORIG_EVAL(blk)
        except Exception as err:
            self.eval_exc = (name, err)
            self.run.log('eval-exc', name, cerr(err))
            raise
        new = blk.output
        if changed and self.inited:
            self.n_changes_after_init += 1
        if dests and before != [self.blocks[d].output for d in dests]:
            self.run.fired('reach:cblock_event_changed_sblock_while_settling')
        if info is None:
            self.run.violate(f"{self.prop}/unexpected-cblock",
                             f"a combinational block {name} that nobody asked for was evaluated")
            return changed
        if ins is None or self.has_undef(ins):
            self.run.log('eval-undef-input', name)
            return changed
        typ, params, _layout = info
        mprev = cm.UNDEF if prev is edzed.UNDEF else prev
        if typ == 'Compare' and mprev is not cm.UNDEF:
            x = ins['_'][0]
            if params['low'] <= x < params['high']:
                self.run.fired('reach:compare_in_hysteresis_zone')
        elif typ == 'Compare':
            x = ins['_'][0]
            if params['low'] <= x < params['high']:
                self.run.fired('reach:compare_first_eval_in_zone')
        try:
            ok = cm.is_legal(typ, params, ins, mprev, new)
            exp = cm.legal_outputs(typ, params, ins, mprev)
        except Exception as err:   # pylint: disable=broad-except
            self.run.log('model-exc', name, cerr(err))
            return changed
        if not ok:
            diag = self.aliasing_diagnosis(name, new)
            if diag:
                self.run.violate(
                    f"{self.prop}/const-aliasing/equal-constants-share-one-Const",
                    f"{typ} {name}: evaluated to {reveal(new)}, the connected inputs "
                    f"{canon(self.shown(ins))} require {' or '.join(reveal(e) for e in exp)}: {diag}")
            else:
                self.run.violate(
                    f"{self.prop}/evaluation/{typ}",
                    f"{typ} {name} ({self.shown_params(typ, params)}): inputs {self.shown(ins)}, "
                    f"previous output {reveal(prev)}: evaluated to {reveal(new)}, documented "
                    f"function gives {' or '.join(reveal(e) for e in exp)}")
        return changed

    @staticmethod
    def shown(ins):
        return {k: reveal(v) for k, v in ins.items()}

    @staticmethod
    def shown_params(typ, params):
        if typ == 'Func':
            return f"func={params['func'].__name__[2:]}, unpack={params['unpack']}"
        return ', '.join(f"{k}={v!r}" for k, v in params.items())

    # ---- oracle (a): fixed point when idle
    def check_idle(self, tag):
        run = self.run
        circuit = self.circuit
        n_bad = 0
        for name in sorted(self.cinfo):
            typ, params, _layout = self.cinfo[name]
            if name.startswith('_not_'):
                try:
                    blk = circuit.findblock(name)
                except KeyError:
                    run.violate(f"{self.prop}/shortcut-missing",
                                f"{tag}: no block {name} exists although the shortcut was connected")
                    continue
            else:
                blk = self.blocks[name]
            out = blk.output
            try:
                ins = self.input_values(name, 'idle')
            except KeyError:
                continue
            if out is edzed.UNDEF:
                run.violate(f"{self.prop}/idle-undef/{typ}", f"{tag}: {typ} {name} has no output")
                continue
            if self.has_undef(ins):
                run.violate(f"{self.prop}/idle-undef/source", f"{tag}: an input of {name} is UNDEF")
                continue
            try:
                ok = cm.is_fixed_point(typ, params, ins, out)
            except Exception as err:   # pylint: disable=broad-except
                run.log('model-exc', name, cerr(err))
                continue
            if ok:
                continue
            n_bad += 1
            if n_bad > 3:
                continue
            exp = cm.legal_outputs(typ, params, ins, out)
            diag = self.aliasing_diagnosis(name, out)
            if diag:
                run.violate(
                    f"{self.prop}/const-aliasing/equal-constants-share-one-Const",
                    f"{tag}: {typ} {name} outputs {reveal(out)}, the connected inputs "
                    f"{self.shown(ins)} require {' or '.join(reveal(e) for e in exp)}: {diag}")
            else:
                run.violate(
                    f"{self.prop}/fixed-point/{typ}",
                    f"{tag}: {typ} {name} ({self.shown_params(typ, params)}) outputs {reveal(out)} "
                    f"while its inputs are {self.shown(ins)}: the documented function gives "
                    f"{' or '.join(reveal(e) for e in exp)} (evaluated since the last driver "
                    f"action: {self.evals[-12:]})")
        # oracle (c): history of directly fed Compare blocks
        for name in sorted(self.cmp_track):
            tr = self.cmp_track[name]
            _typ, params, _l = self.cinfo[name]
            obs = self.blocks[name].output
            if obs is edzed.UNDEF:
                continue
            obs = bool(obs)
            if tr['legal'] is None or len(tr['vals']) > 12:
                tr['legal'] = {obs}
                tr['vals'] = []
                continue
            states = set(tr['legal'])
            vals = tr['vals']

            def hyst(x, s, low=params['low'], high=params['high']):
                if x >= high:
                    return True
                if x < low:
                    return False
                return s
            for v in vals[:-1]:
                states |= {hyst(v, s) for s in states}
            if vals:
                states = {hyst(vals[-1], s) for s in states}
            if obs not in states:
                run.violate(
                    f"{self.prop}/compare-history",
                    f"{tag}: Compare {name} (low={params['low']}, high={params['high']}) is "
                    f"{obs}; its source {tr['src']} took the values {vals} at the points where "
                    f"the simulator could run, starting from output {sorted(tr['legal'])}: only "
                    f"{sorted(states)} can result")
            tr['legal'] = {obs}
            tr['vals'] = []
        run.log('idle', tag, [[n, canon(self.blocks[n].output)] for n in sorted(self.blocks)],
                list(self.evals))

    def note_yield(self):
        """The driver is about to give the simulator a chance to run."""
        for tr in self.cmp_track.values():
            x = self.blocks[tr['src']].output
            if x is edzed.UNDEF:
                continue
            tr['vals'].append(x)

    def evals_done(self):
        """Called at a driver action: classify what the simulator did since the previous one."""
        ev = self.evals
        self.last_burst = len(ev)
        if self.abort_burst is None and self.circuit.error is not None:
            self.abort_burst = len(ev)      # the burst in which the simulation ended
        if ev:
            nblocks = len(list(self.circuit.getblocks()))
            if len(ev) > nblocks:
                self.run.fired('reach:burst_evaluations_above_number_of_blocks')
            ncb = sum(1 for b in self.circuit.getblocks() if isinstance(b, edzed.CBlock))
            if len(ev) > 3 * ncb:
                self.run.fired('reach:burst_evaluations_above_3x_cblocks')
            if len(set(ev)) < len(ev):
                self.run.fired('reach:glitch_reevaluation')
            self.run.beh('E', list(ev))
        self.evals = []

    @staticmethod
    def is_instability(err):
        return isinstance(err, edzed.EdzedCircuitError) and 'instability' in str(err).lower()

    def judge_abort(self, err):
        """
        The simulation of a valid acyclic circuit has ended with err. Returns (signature,
        message), or None if the property does not say that this must not happen.
        docs/errors.rst: a circuit is deemed unstable "when the change propagates through the
        whole circuit several times". Every generated network is acyclic (event edges
        included), so it always settles; an 'instability' verdict reached before the simulator
        has made even two evaluations per block of the whole circuit in that burst is a false
        one. Beyond that margin the verdict is the documented limit at work and nothing is
        demanded (the code's constant is 3).
        """
        text = cerr(err)
        if self.is_instability(err):
            nblocks = len(list(self.circuit.getblocks()))
            done = self.abort_burst if self.abort_burst is not None else len(self.evals)
            if done >= 2 * nblocks:
                self.run.fired('reach:instability_beyond_margin')
                self.run.log('instability-beyond-margin', done, nblocks)
                return None
            ncb = sum(1 for b in self.circuit.getblocks() if isinstance(b, edzed.CBlock))
            return (f"{self.prop}/false-instability",
                    f"an acyclic network ({nblocks} blocks, {ncb} of them combinational) was "
                    f"declared unstable after only {done} evaluations in the burst (less than "
                    f"two per block of the circuit): {text}")
        site = f"eval:{self.eval_exc[0]}" if self.eval_exc else 'other'
        return (f"{self.prop}/simulation-aborted/{type(err).__name__}",
                f"the simulation of a valid acyclic circuit ended with {text} ({site})")

    # ---- recorders
    def on_record(self, blk, etype, data):
        self.rec_log.append((blk.name, etype, dict(data)))
        if self.record_hook is not None:
            self.record_hook(blk.name, etype, data)

    # ---- driver helpers
    def send(self, op):
        """One external event. Returns (result|exception)."""
        blk = self.blocks.get(op['src'])
        if blk is None:
            raise PlanError('send to a missing block')
        data = {}
        if 'value' in op:
            data['value'] = dec(op['value'])
        if 'amount' in op:
            data['amount'] = op['amount']
        try:
            res = edzed.ExtEvent(blk, op['ev']).send(**data)
        except edzed.EdzedInvalidState as err:
            self.run.log('send-refused', op['src'], op['ev'])
            return err
        except edzed.EdzedUnknownEvent as err:
            # documented as non-fatal: reported to the sender, the simulation goes on
            self.run.log('send-unknown-event', op['src'], op['ev'], canon(data),
                         canon(blk.output), self.circuit.is_ready())
            if self.circuit.is_ready():
                self.run.fired('reach:nonfatal_unknown_event_from_output_event')
            return err
        except Exception as err:    # pylint: disable=broad-except
            self.run.log('send-exc', op['src'], op['ev'], cerr(err))
            return err
        self.run.log('send', op['src'], op['ev'], canon(data), canon(res), canon(blk.output))
        return res

    def install(self):
        _CURRENT[0] = self
        edzed.CBlock.eval_block = _eval_wrapper

    def uninstall(self):
        _CURRENT[0] = None
        edzed.CBlock.eval_block = _ORIG_EVAL

    def shape(self):
        """Abstract shape of the circuit (values removed) for the behaviour hash."""
        out = []
        for cb in self.spec['cblocks']:
            out.append([cb['type'], cb.get('func'), cb.get('unpack'),
                        [[n, i is not None, r[0], r[1] if r[0] in 'on!' else None]
                         for n, i, r in iter_refs(cb)],
                        [[e['dest'], e['etype']] for e in cb.get('events', [])]])
        return out

    def reach_static(self):
        """Reach probes that only depend on the circuit description."""
        run = self.run
        spec = self.spec
        pos = {n: i for i, n in enumerate(effective_order(spec))}
        srcs = {s['name'] for s in spec['sources']}
        consts = []
        users = {}
        for cb in spec['cblocks']:
            seen = []
            for iname, idx, ref in iter_refs(cb):
                if ref[0] == '!':
                    users.setdefault(ref[1], set()).add(cb['name'])
                    if ref[1][:1] in ('n', 'o', 't'):
                        run.fired('reach:shortcut_to_name_beginning_like_not')
                    run.fired('reach:shortcut_to_sblock' if ref[1] in srcs
                              else 'reach:shortcut_to_cblock')
                elif ref[0] == 'n' and pos[ref[1]] > pos[cb['name']]:
                    run.fired('reach:name_ref_to_later_block')
                elif ref[0] in 'cC':
                    consts.append(dec(ref[1]))
                if ref[0] in 'on!':
                    if (ref[0] == '!', ref[1]) in seen:
                        run.fired('reach:repeated_reference')
                    seen.append((ref[0] == '!', ref[1]))
            for iname, val in (cb.get('kw') or {}).items():
                if isinstance(val, dict) and not val.get('g'):
                    run.fired('reach:empty_group')
            if cb['type'] == 'Func' and not cb.get('unpack', True):
                run.fired('reach:unpack_off')
            if cb.get('events'):
                run.fired('reach:cblock_event_feedback_wired')
        if any(len(u) > 1 for u in users.values()):
            run.fired('reach:shortcut_shared')
        fam = {}
        for c in consts:
            if is_num(c):
                fam.setdefault(c == 0 if c in (0, 1) else None, set()).add(type(c).__name__)
        if any(k is not None and len(v) > 1 for k, v in fam.items()):
            run.fired('reach:equal_constants_of_different_type')
        # reconvergent fan-out: a node reaching a cblock over two different direct inputs
        deps = {cb['name']: [r[1] for _n, _i, r in iter_refs(cb) if r[0] in 'on!']
                for cb in spec['cblocks']}

        def ancestors(n, memo):
            if n in memo:
                return memo[n]
            memo[n] = set()
            res = set()
            for d in deps.get(n, []):
                res.add(d)
                res |= ancestors(d, memo)
            memo[n] = res
            return res
        memo = {}
        for name, ds in deps.items():
            uniq = sorted(set(ds))
            found = False
            for i, d1 in enumerate(uniq):
                a1 = ancestors(d1, memo) | {d1}
                for d2 in uniq[i + 1:]:
                    if a1 & (ancestors(d2, memo) | {d2}):
                        found = True
            if found:
                run.fired('reach:reconvergent_fanout')
                break
