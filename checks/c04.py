"""
C04 - a timed state yields its timed event exactly once, on time, unless left earlier.

Real code: edzed.FSM timers (generic generated FSMs), edzed.Timer, edzed.InputExp on the
virtual loop. Oracle: timed FSM reference model used as a *monitor*: it consumes the
observed order of external events and timer expirations (ties are legal both ways) and
checks every delivery, the single pending timer handle, its deadline, and silence after stop.

Bystanders (plan keys with defaults, old replay files keep working):
  failstop  - sync blocks whose stop() raises (their place in the stop order: hash_salt)
  slowstop  - AddonAsync blocks whose stop_async() takes virtual time, i.e. the clean-up of
              the circuit is a window of virtual time in which the FSMs are still alive; the
              block may itself ask for a termination again from inside that window
              (Event to '_ctrl' shutdown/abort, circuit.abort(exc))
  oasync    - an OutputAsync (coro = scripted asyncio.sleep) whose on_success / on_cancel /
              on_error events are events of the monitored FSMs; puts are placed shortly before
              the stop (the run is in flight when the shutdown begins) or so that the
              completion meets a predicted expiration; optional stop_data / guard_time.
              Such an event is a perfectly legal event whenever it arrives (also during the
              clean-up): the monitor follows it like any other event (origin 'byst').
  term2     - a second termination request by the driver at stop_at + dt (circuit.abort(exc),
              abort(CancelledError), a second shutdown() from another task)
After run_forever() ended (be it by shutdown(), an FSM error or a failed start; observed with
a done-callback of the simulation task) no FSM timer may be pending and nothing may fire,
whatever happened during the clean-up. Signatures C04/timer-after-stop, C04/event-after-stop;
suffix /orphaned-handle when the leftover handle is not the FSM's _active_timer, i.e. the FSM
has lost track of a timer (finding F25, fixed in /repo 7f2353a: a timed state left while
calc_output() had not produced an output yet did not cancel its timer; met when a stop_data
event of the OutputAsync reached such an FSM during the clean-up of a failed start; replay
known/C04-undef-output-timer-orphaned.json).

Seeded changes (tools/seeded.py, quick tier): C04-s1..s9 detected. s7 (every abort() cancels
the simulation task again, a second one arriving during the asynchronous clean-up skips the
stop() of the FSMs) needs slowstop|oasync + term2/act; s9 (stop() of the sync blocks moved
before the asynchronous clean-up) needs oasync with an event that arms a timer during the
clean-up.
"""

from __future__ import annotations

import asyncio
import copy

from simkit import seams
from simkit.runner import Run, PlanError, canon, gen_knobs
from models.fsm_model import FsmModel, TimerModel, InputExpModel, ModelError, UNDEF
from checks import fsmlib

edzed = seams.install()

PROP = 'C04'
LEVEL = 'exploration'
RUNS = {'quick': 40000, 'thorough': 800000}
CHUNK = 250
RULE = ("one run = 1-3 timed blocks (generated timed FSM / Timer / InputExp) driven by 2-12 "
        "external events placed before, in the same instant as, or after predicted expirations, "
        "under drawn latency/cost/tie-order/stall knobs; bystanders: blocks whose stop() raises, "
        "blocks with a slow asynchronous clean-up, an OutputAsync whose result events drive the "
        "FSMs (also during the clean-up), a second termination request during the clean-up; "
        "non-trivial = at least one timer "
        "expiration was observed or cancelled; distinct = hash of the abstracted behaviour "
        "(per block: sequence of (origin, event, accepted, new state, timer armed), values and "
        "times removed)")
REACH_EXPECTED = ['tie_event_before_timer', 'tie_timer_before_event', 'timer_cancelled_by_exit',
                  'zero_duration_chain', 'rejected_timed_event', 'per_event_duration',
                  'stop_with_pending_timer', 'inf_duration', 'no_duration_error',
                  'timer_fired_during_cleanup', 'second_termination_during_cleanup',
                  'second_termination_with_pending_timer', 'event_during_async_cleanup',
                  'timer_armed_during_cleanup', 'bystander_event_tie']
ASSUMPTIONS = [
    "durations given as strings are looked up in the generator's own table, not parsed by the model",
    "timer deadlines are compared with 1 microsecond tolerance; lateness bound = drawn latency + "
    "50 x per-callback cost + injected stalls",
    "timed events falling into the clean-up phase (after the termination request, before the "
    "FSM's stop()) are checked when they are delivered, but not demanded",
    "events sent by bystanders while a failed start is being cleaned up are not followed",
]


# --------------------------------------------------------------------------- generation

DUR_EVENT = [0.3, 0.7, 1.0, 2.5, 0, 'inf', '0.25s', 'PT0.5S', '1.5s']
OFFSETS = [-0.1, -0.001, -1e-6, 0.0, 0.0, 0.0, 1e-6, 0.001, 0.1]


def make_model(b):
    if b['kind'] == 'gfsm':
        return FsmModel(b['spec'], b['inst'], fsmlib.STR_DURATIONS)
    if b['kind'] == 'timer':
        return TimerModel(b['inst'], fsmlib.STR_DURATIONS)
    if b['kind'] == 'inputexp':
        return InputExpModel(b['inst'], fsmlib.STR_DURATIONS)
    raise PlanError(f"unknown kind {b['kind']}")


def gen_block(rng, idx):
    r = rng.random()
    if r < 0.4:
        spec, inst = fsmlib.gen_spec(rng, idx, timers=True, max_states=3, max_events=2)
        if not spec['timers']:
            s = rng.choice(spec['states'])
            spec['timers'][s] = {'dur': rng.choice([0.5, 1.0]),
                                 'ev': rng.choice([r_[0] for r_ in spec['rules']])}
        return {'kind': 'gfsm', 'name': inst['name'], 'spec': spec, 'inst': inst}
    if r < 0.75:
        inst = {'name': f"t{idx}", 't': {}, 'restartable': rng.random() < 0.6}
        mode = rng.random()
        if mode < 0.25:
            inst['t_period'] = rng.choice([1.0, 2.0, 0.5])
        else:
            if rng.random() < 0.75:
                inst['t']['on'] = rng.choice([0.5, 1.0, 2.0, '0.25s', '1m30s', 0])
            if rng.random() < 0.35:
                inst['t']['off'] = rng.choice([0.5, 1.0, 3.0, '2s'])
        if rng.random() < 0.3:
            inst['initdef'] = 'on'
        if inst['t'].get('on') == 0 and inst['t'].get('off') is not None:
            inst['t']['on'] = 0.5    # avoid a trivially endless astable at zero duration
        return {'kind': 'timer', 'name': inst['name'], 'inst': inst}
    inst = {'name': f"x{idx}", 'duration': rng.choice([0.5, 1.0, 2.0, None, '2s', 'PT0.5S']),
            'expired': rng.choice([None, 'EXP', 0, False])}
    if rng.random() < 0.4 and inst['duration'] is not None:
        inst['init_value'] = rng.choice([1, 'init', 0])
    return {'kind': 'inputexp', 'name': inst['name'], 'inst': inst}


def block_events(b):
    if b['kind'] == 'gfsm':
        return sorted({r[0] for r in b['spec']['rules']})
    if b['kind'] == 'timer':
        return ['start', 'stop', 'toggle']
    return ['put']


def gen(rng, tier, index=0):
    nblocks = rng.choice([1, 1, 2, 3])
    blocks = [gen_block(rng, i) for i in range(nblocks)]
    exact = rng.random() < 0.5
    knobs = gen_knobs(rng, latency=not exact, cost=not exact, ties=True)
    if exact:
        knobs['tie_permute'] = rng.random() < 0.7
    # generation-time simulation, only to place events relative to expirations
    models = {b['name']: make_model(b) for b in blocks}
    deadlines = {}
    alive = True

    def arm(name, t):
        m = models[name]
        if m.timer is not None:
            deadlines[name] = (t + m.timer[0], m.timer[1])
        elif not m.has_timer:
            deadlines.pop(name, None)

    def fire_until(t):
        nonlocal alive
        for _ in range(200):
            due = sorted((d, n) for n, (d, _e) in deadlines.items() if d < t)
            if not due:
                return
            d, n = due[0]
            _, ev = deadlines.pop(n)
            try:
                models[n].event(ev, {})
            except ModelError as err:
                if err.kind != 'unknown-event':
                    alive = False
                    return
            arm(n, d)

    for b in blocks:
        m = models[b['name']]
        init = b['inst'].get('initdef') or m.states[0]
        try:
            m.event({'goto': init}, {})
        except ModelError:
            alive = False
        arm(b['name'], 0.0)
    ops = []
    t = 0.05
    nops = rng.randint(2, 12 if tier == 'thorough' else 9)
    for _ in range(nops):
        if not alive:
            break
        b = rng.choice(blocks)
        name = b['name']
        if deadlines and rng.random() < 0.65:
            d = rng.choice(sorted(v[0] for v in deadlines.values()))
            t = max(t, d + rng.choice(OFFSETS))
        else:
            t += rng.choice([0.0, 0.01, 0.2, 0.4, 1.1])
        t = round(t, 6)
        fire_until(t)
        if not alive:
            break
        r = rng.random()
        if b['kind'] == 'gfsm' and r < 0.15:
            evs = block_events(b)
            key = rng.choice(['m:', 'i:']) + rng.choice(evs)
            val = rng.random() < 0.4
            ops.append({'t': t, 'op': 'flag', 'blk': name, 'key': key, 'val': val})
            models[name].flags[key] = val
            continue
        if r < 0.2 and not exact:
            ops.append({'t': t, 'op': 'stall', 'dur': rng.choice([0.001, 0.05, 0.7, 3.0])})
            continue
        ev = rng.choice(block_events(b))
        data = {}
        if rng.random() < 0.3:
            data['duration'] = rng.choice(DUR_EVENT)
        if b['kind'] == 'inputexp':
            data['value'] = rng.choice([1, 2, 'v', None, 0])
        elif rng.random() < 0.15:
            data['ok'] = False
        if rng.random() < 0.04:
            ev = 'bogus'
        ops.append({'t': t, 'op': 'ev', 'blk': name, 'ev': ev, 'data': data})
        try:
            models[name].event(ev, data)
        except ModelError as err:
            if err.kind != 'unknown-event':
                alive = False
                break
        arm(name, t)
    stop_at = round(t + rng.choice([0.0, 0.001, 0.3, 1.0, 5.0]), 6)
    plan = {'knobs': knobs, 'blocks': blocks, 'ops': ops, 'stop_at': stop_at, 'drain': 200.0}
    # fault: bystander blocks whose stop() raises (an error in one block's clean-up must not
    # keep the FSMs from being stopped; where they come in the stop order is up to hash_salt)
    plan['failstop'] = rng.choice([0, 0, 0, 0, 1, 2, 3])
    # asynchronous bystanders and a second termination request. Drawn last: everything above
    # is the same plan as before these keys existed.
    plan['slowstop'] = []
    plan['oasync'] = None
    plan['term2'] = None
    if rng.random() < 0.35:
        plan['slowstop'] = [gen_slowstop(rng) for _ in range(rng.choice([1, 1, 2]))]
    if rng.random() < 0.35:
        plan['oasync'] = gen_oasync(rng, blocks, stop_at,
                                    sorted(v[0] for v in deadlines.values()) if alive else [])
    if (plan['slowstop'] or plan['oasync']) and rng.random() < 0.5:
        plan['term2'] = {'dt': rng.choice([0.0, 1e-6, 0.001, 0.05, 0.2, 0.6, 3.0]),
                         'how': rng.choice(TERM2_DRIVER)}
    # a sixth of the blocks are instances of a subclass that adds nothing (Timer, InputExp and
    # generated classes alike): the timed behaviour must be inherited (defect F27)
    for b in plan['blocks']:
        if rng.random() < 0.17:
            b['subclass'] = True
    return plan


# generous: the clean-up of the OutputAsync is never cut short (what happens then is C12's
# business; with stop_timeout <= 0 the block has no asynchronous clean-up at all and its runs
# legally outlive the simulation)
OA_STOP_TIMEOUT = 30.0
TERM2_DRIVER = ['abort_exc', 'abort_cancel', 'shutdown_task']
TERM2_BLOCK = ['ctrl_shutdown', 'ctrl_abort', 'abort_exc', 'abort_cancel']


def gen_slowstop(rng):
    """A block whose stop_async() sleeps d1, optionally asks for termination again, sleeps d2."""
    return {'d1': rng.choice([0.0, 0.001, 0.1, 0.25, 1.0]),
            'd2': rng.choice([0.0, 0.05, 0.3, 1.5]),
            'act': rng.choice([None, None, None] + TERM2_BLOCK),
            'timeout': rng.choice([10.0, 10.0, 10.0, 10.0, 0.2])}


def gen_oasync(rng, blocks, stop_at, deadlines):
    """An OutputAsync whose result events are events of the monitored blocks."""
    mode = rng.choice(['wait', 'wait', 'start', 'cancel'])
    on = {}
    for trig in ('success', 'cancel', 'error'):
        if trig != 'success' and rng.random() < 0.5:
            continue
        b = rng.choice(blocks)
        if b['kind'] == 'inputexp' and trig != 'success':
            continue    # (only a successful run yields a 'value' for a put event)
        extra = {}
        if rng.random() < 0.25:
            extra['duration'] = rng.choice(DUR_EVENT)
        if b['kind'] == 'gfsm' and rng.random() < 0.1:
            extra['ok'] = False
        on[trig] = {'blk': b['name'], 'ev': rng.choice(block_events(b)), 'extra': extra}
    puts = []
    for _ in range(rng.choice([0, 1, 1, 2, 3])):
        d = rng.choice([0.0, 0.001, 0.1, 0.3, 0.7, 2.0])
        if deadlines and rng.random() < 0.3:
            # completion before / in the same instant as / after a predicted expiration
            t = rng.choice(deadlines) - d + rng.choice(OFFSETS)
        else:
            # shortly before the stop: typically still running when the shutdown begins
            t = stop_at - rng.choice([0.0, 0.001, 0.05, 0.2, 0.5, 1.5])
        puts.append({'t': round(max(0.01, t), 6), 'd': d, 'fail': rng.random() < 0.2,
                     'v': rng.choice([1, 'v', 0, None])})
    puts.sort(key=lambda p: p['t'])
    oa = {'name': 'oa0', 'mode': mode, 'on': on, 'puts': puts, 'stop_data': None,
          'guard': None}
    if rng.random() < 0.4:
        oa['stop_data'] = {'d': rng.choice([0.0, 0.1, 0.5]), 'fail': rng.random() < 0.15,
                           'v': 'bye'}
    if mode != 'start' and rng.random() < 0.2:
        oa['guard'] = rng.choice([0.05, 0.4])
    return oa


# --------------------------------------------------------------------------- monitor

def circuit_ready(run):
    """False before the start is complete and from the first termination request on."""
    return edzed.get_circuit().is_ready()


class Monitor:

    def __init__(self, run, b, blk, model):
        self.run = run
        self.b = b
        self.blk = blk
        self.model = model
        self.lib = b['kind'] != 'gfsm'
        self.depth = 0
        self.cblog = []
        self.deadline_ns = None
        self.deadline_when = None
        self.timed_event = None
        self.dead = False
        self.stall_credit = 0
        self.origin = None
        self.last_fire_ns = None
        self.top = None
        self.leak = ''      # diagnosis of a timer left after the stop (signature suffix)
        self.leak_reported = False
        k = run.knobs
        self.slack = k['latency_ns'] + 50 * k['cost_ns'] + 1000

    def name(self):
        return self.b['name']

    def sink(self, _blk, entry):
        self.cblog.append(entry)

    def rec(self, _rec, _etype, data):
        self.cblog.append(fsmlib.fsm_log_entry(data))

    # ---- event hook ----
    def hook(self, phase, blk, etype, arg):
        run = self.run
        if run.stopped or (run.simtask is not None and run.simtask.done()):
            run.violate('C04/event-after-stop' + self.leak,
                        f"{self.name()}: event {canon(etype)} delivered after the simulation stopped")
            return
        if phase == 'pre':
            self.depth += 1
            if self.depth > 1:
                return
            self.cblog = []
            now = run.loop._ns
            jetype = {'goto': etype.state} if isinstance(etype, edzed.Goto) else etype
            self.top = (jetype, dict(arg))
            if run.initialising and not circuit_ready(run):
                # a failed start is being cleaned up (that takes time when a bystander has an
                # asynchronous clean-up): blocks may be half initialised, the monitor stops
                # following this one; only the silence after the stop is still demanded
                self.dead = True
            if run.driver_op is not None and run.driver_op.get('blk') == self.name():
                self.origin = 'ext'
                if (self.deadline_ns is not None and not self.dead
                        and now - self.deadline_ns > self.slack + self.stall_credit):
                    run.violate('C04/timer-overdue',
                                f"{self.name()}: timed event {self.timed_event} was due "
                                f"{(now - self.deadline_ns) / 1e9:.6f}s ago and was not delivered")
                if self.deadline_ns is not None and now >= self.deadline_ns:
                    run.fired('reach:tie_event_before_timer')
                if self.last_fire_ns == now:
                    run.fired('reach:tie_timer_before_event')
            elif arg.get('source') in run.byst_names:
                # a result event of the OutputAsync bystander: legal at any time
                self.origin = 'byst'
                if self.dead:
                    return
                if circuit_ready(run):
                    if (self.deadline_ns is not None
                            and now - self.deadline_ns > self.slack + self.stall_credit):
                        run.violate('C04/timer-overdue',
                                    f"{self.name()}: timed event {self.timed_event} was due "
                                    f"{(now - self.deadline_ns) / 1e9:.6f}s ago and was not delivered")
                else:
                    run.fired('reach:event_during_async_cleanup')
                if ((self.deadline_ns is not None and now >= self.deadline_ns)
                        or self.last_fire_ns == now):
                    run.fired('reach:bystander_event_tie')
            elif run.initialising:
                self.origin = 'init'
            else:
                self.origin = 'timer'
                if self.dead:
                    return
                if not circuit_ready(run):
                    run.fired('reach:timer_fired_during_cleanup')
                if self.deadline_ns is None:
                    run.violate('C04/stale-or-spurious-timed-event',
                                f"{self.name()}: event {canon(etype)} delivered by a timer although "
                                "no timer should be pending (state left or re-entered?)")
                else:
                    if canon(jetype) != canon(self.timed_event) or arg:
                        run.violate('C04/wrong-timed-event',
                                    f"{self.name()}: timer delivered {canon(etype)} {canon(arg)}, "
                                    f"expected {self.timed_event}")
                    if now < self.deadline_ns - 1:
                        run.violate('C04/timer-early',
                                    f"{self.name()}: timed event {(self.deadline_ns - now) / 1e9:.9f}s early")
                    elif now - self.deadline_ns > self.slack + self.stall_credit:
                        run.violate('C04/timer-late',
                                    f"{self.name()}: timed event {(now - self.deadline_ns) / 1e9:.6f}s late "
                                    f"(allowed {(self.slack + self.stall_credit) / 1e9:.6f})")
                    self.last_fire_ns = now
            return
        # post / exc
        self.depth -= 1
        if self.depth > 0:
            return
        if self.dead:
            return
        self.finish(phase, arg)

    def finish(self, phase, arg):
        run = self.run
        model = self.model
        jetype, data = self.top
        had_timer = model.has_timer
        old_state = model.state
        exp_exc = None
        accepted = None
        try:
            accepted = model.event(jetype, data)
        except ModelError as err:
            exp_exc = err.kind
        origin = self.origin
        run.log('fsm-event', self.name(), origin, canon(jetype), canon(data), phase,
                canon(arg), model.state)
        run.beh(self.name()[0], origin, 'bogus' if exp_exc == 'unknown-event' else
                ('E' if isinstance(jetype, str) else 'G'),
                exp_exc or accepted, model.state, model.timer is not None)
        if exp_exc is not None:
            if exp_exc == 'unknown-event':
                if phase != 'exc' or not isinstance(arg, edzed.EdzedUnknownEvent):
                    run.violate('C04/unknown-event-not-reported',
                                f"{self.name()}: unknown event {jetype}: {phase} {canon(arg)}")
                return
            self.dead = True
            if not run.stopping:
                # (an error after shutdown() was called cannot replace the cancellation)
                run.expect_abort = exp_exc
            run.fired('reach:' + {'no-duration': 'no_duration_error',
                                  'chain-limit': 'chain_limit_error',
                                  'multi-chain': 'multi_chain_error'}.get(exp_exc, exp_exc))
            if phase != 'exc':
                run.violate('C04/missing-error',
                            f"{self.name()}: event {canon(jetype)} {canon(data)} should fail "
                            f"({exp_exc}) but returned {canon(arg)}")
            self.deadline_ns = None
            return
        if phase == 'exc':
            run.violate('C04/unexpected-exception',
                        f"{self.name()}: event {canon(jetype)} {canon(data)} raised {canon(arg)}")
            self.dead = True
            return
        if bool(arg) != bool(accepted) or not isinstance(arg, bool):
            run.violate('C04/wrong-result',
                        f"{self.name()}: event {canon(jetype)} {canon(data)} in state {old_state} "
                        f"returned {canon(arg)}, expected {accepted}")
        # callback / generated-event log
        exp_log = model.log
        obs_log = fsmlib.normalise_observed(self.cblog)
        if self.lib:
            exp_log = [e for e in exp_log if e[0] in ('on_enter', 'on_exit', 'notrans', 'on_output')]
        msg = fsmlib.compare_logs(canon(exp_log), canon(obs_log))
        if msg and not msg.startswith('event-data:'):
            # (what the actions read through fsm_event_data is C03's business, not C04's)
            run.violate('C04/action-log', f"{self.name()}: event {canon(jetype)}: {msg}")
        # timer bookkeeping
        if accepted:
            if had_timer and origin != 'timer':
                run.fired('reach:timer_cancelled_by_exit')
            if any(e[0] == 'zero-timer' for e in model.log):
                run.fired('reach:zero_duration_chain')
            if data.get('duration') is not None and model.state in model.spec.get('timers', {}):
                run.fired('reach:per_event_duration')
            if model.timer is not None:
                if origin == 'byst' and not circuit_ready(run):
                    run.fired('reach:timer_armed_during_cleanup')
                when = run.loop.time() + model.timer[0]
                self.deadline_when = when
                self.deadline_ns = int(round(when * 1e9))
                self.timed_event = model.timer[1]
                self.stall_credit = 0
            else:
                if model.state in model.spec.get('timers', {}) and not model.has_timer:
                    run.fired('reach:inf_duration')
                self.deadline_ns = None
        else:
            if origin == 'timer':
                # rejected timed event: stays in the state without a timer
                run.fired('reach:rejected_timed_event')
                model.has_timer = False
                self.deadline_ns = None
        if origin == 'timer' and accepted:
            run.fired('reach:timer_expired')
        self.check_state('after-event')

    # ---- invariants ----
    def my_timers(self):
        loop = self.run.loop
        # due timers already moved to the ready queue still count as pending
        ready = [h for h in loop._ready if hasattr(h, '_when') and not h._cancelled]
        # the timer callback is blk.event (hooked: tagged with _sim_blk) or a bound method
        # of the block (e.g. FSM._timer_expired)
        return [h for h in loop.live_timers() + ready
                if getattr(h._callback, '_sim_blk', None) is self.blk
                or getattr(h._callback, '__self__', None) is self.blk]

    def check_state(self, where):
        run = self.run
        blk = self.blk
        model = self.model
        if self.dead:
            return
        st = canon(blk.state)
        if st != model.state:
            run.violate('C04/wrong-state', f"{self.name()} {where}: state {st}, expected {model.state}")
        if canon(blk.output) != canon(model.output if model.output != UNDEF else edzed.UNDEF):
            run.violate('C04/wrong-output',
                        f"{self.name()} {where}: output {canon(blk.output)}, expected {canon(model.output)}")
        timers = self.my_timers()
        if len(timers) > 1:
            run.violate('C04/two-timers', f"{self.name()} {where}: {len(timers)} timers pending")
        want = self.deadline_ns is not None
        if bool(timers) != want:
            run.violate('C04/timer-presence',
                        f"{self.name()} {where}: pending timer={bool(timers)}, expected {want} "
                        f"(state {model.state})")
        elif timers and abs(timers[0]._when - self.deadline_when) > 1e-6:
            run.violate('C04/wrong-deadline',
                        f"{self.name()} {where}: timer expires at {timers[0]._when:.6f}, "
                        f"expected {self.deadline_when:.6f}")
        if want and timers and where == 'quiescent':
            with seams.free_reads():
                exp_ts = blk.get_state()[1]
            off = seams.S.wall_offset_ns / 1e9
            if exp_ts is None or abs(exp_ts - (self.deadline_when + off)) > 5e-5:
                run.violate('C04/get-state-expiration',
                            f"{self.name()}: get_state() expiration {exp_ts}, expected "
                            f"{self.deadline_when + off:.6f}")
        if where == 'quiescent' and self.deadline_ns is not None:
            now = run.loop._ns
            if now - self.deadline_ns > self.slack + self.stall_credit:
                run.violate('C04/timer-overdue',
                            f"{self.name()}: timed event {self.timed_event} overdue by "
                            f"{(now - self.deadline_ns) / 1e9:.6f}s at an idle point")


# --------------------------------------------------------------------------- execution

class FailStop(edzed.SBlock):
    """Bystander whose clean-up fails."""

    def init_regular(self):
        self.set_output(0)

    def stop(self):
        super().stop()
        self.x_run.fired('fault:user_fn_raises:stop')
        raise RuntimeError(f"injected stop() failure in {self.name}")


def terminate_again(run, how, src=None):
    """
    A termination request that comes after the first one (harmless by the documentation:
    "abort() delivers the exception only if the simulation hasn't received another
    exception already"). how: see TERM2_DRIVER / TERM2_BLOCK; src: the requesting block.
    """
    circuit = edzed.get_circuit()
    simtask = run.simtask
    in_cleanup = (simtask is not None and not simtask.done() and not circuit.is_ready()
                  and (run.cleanup_depth > 0 or run.oa_inflight > 0))
    run.log('term2', how, src.name if src is not None else None, in_cleanup)
    if in_cleanup:
        run.beh('term2', how)
        run.fired('reach:second_termination_during_cleanup')
        if any(m.my_timers() for m in run.monitors.values()):
            run.fired('reach:second_termination_with_pending_timer')
    try:
        if how == 'abort_exc':
            circuit.abort(RuntimeError('scripted second termination'))
        elif how == 'abort_cancel':
            circuit.abort(asyncio.CancelledError('scripted second termination'))
        elif how == 'ctrl_shutdown' and src is not None:
            src.x_ev_shutdown.send(src)
        elif how == 'ctrl_abort' and src is not None:
            src.x_ev_abort.send(src, error=RuntimeError('scripted second termination'))
        elif how == 'shutdown_task' and src is None:
            async def again():
                try:
                    await circuit.shutdown()
                except Exception as err:    # pylint: disable=broad-except
                    # (the error that ended the simulation, when it was not a shutdown)
                    run.log('term2-shutdown', err)
            run.keep.append(asyncio.ensure_future(again()))
        else:
            raise PlanError(f"unknown termination request {how}")
    except PlanError:
        raise
    except Exception as err:    # pylint: disable=broad-except
        run.log('term2-exc', err)


class SlowStop(edzed.AddonAsync, edzed.SBlock):
    """Bystander whose asynchronous clean-up takes virtual time."""

    def init_regular(self):
        self.set_output(0)

    async def stop_async(self):
        run = self.x_run
        spec = self.x_spec
        run.cleanup_depth += 1
        run.log('slowstop-begin', self.name)
        try:
            await asyncio.sleep(float(spec.get('d1', 0.0)))
            if spec.get('act'):
                terminate_again(run, spec['act'], self)
            await asyncio.sleep(float(spec.get('d2', 0.0)))
        finally:
            run.cleanup_depth -= 1
            run.log('slowstop-end', self.name)


def build_oasync(run, oa, monitors):
    """OutputAsync bystander; its result events go to the monitored blocks."""

    async def coro(value):
        if not isinstance(value, dict):
            value = {}
        run.oa_inflight += 1
        run.log('oa-begin', value)
        try:
            await asyncio.sleep(float(value.get('d', 0.0)))
            if value.get('fail'):
                raise RuntimeError('scripted output failure')
            return value.get('v')
        finally:
            run.oa_inflight -= 1
            run.log('oa-end')

    def adder(extra):
        def add_items(data):
            data.update(extra)
            return data
        return add_items

    kw = {}
    for trig in ('success', 'cancel', 'error'):
        spec = oa.get('on', {}).get(trig)
        kw[f"on_{trig}"] = None
        if spec is None:
            continue
        mon = monitors.get(spec.get('blk'))
        if mon is None:
            continue    # (a shrunk plan may have lost the block)
        extra = fsmlib.real_data(spec.get('extra') or {})
        kw[f"on_{trig}"] = edzed.Event(mon.blk, spec['ev'],
                                       efilter=adder(extra) if extra else None)
    if oa.get('stop_data') is not None:
        kw['stop_data'] = {'value': dict(oa['stop_data'])}
    if oa.get('guard') is not None:
        kw['guard_time'] = oa['guard']
    try:
        blk = edzed.OutputAsync(oa['name'], coro=coro, mode=oa['mode'],
                                stop_timeout=OA_STOP_TIMEOUT, **kw)
    except Exception as err:
        raise PlanError(f"OutputAsync: {err}") from None
    run.byst_names.add(blk.name)
    return blk


def build(run, plan):
    monitors = {}
    rec_n = 0
    for i in range(int(plan.get('failstop', 0))):
        FailStop(f"failstop{i}", x_run=run)
    for b in plan['blocks']:
        model = make_model(b)
        mon = Monitor(run, b, None, model)
        nonlocal_rec = fsmlib.Recorder(f"rec_{b['name']}", x_sink=mon.rec)
        rec_n += 1
        if b['kind'] == 'gfsm':
            cls = fsmlib.build_class(b['spec'], mon.sink)
            if b.get('subclass'):
                cls = type(cls.__name__ + 'Sub', (cls,), {'__doc__': 'adds nothing'})
                run.fired('reach:trivial_subclass')
            states = model.states
            kw = {}
            for s in states:
                kw[f"on_enter_{s}"] = edzed.Event(nonlocal_rec, 'enter')
                kw[f"on_exit_{s}"] = edzed.Event(nonlocal_rec, 'exit')
            blk = fsmlib.build_instance(
                cls, b['spec'], b['inst'], mon.sink, on_notrans=edzed.Event(nonlocal_rec, 'nt'),
                on_output=edzed.Event(nonlocal_rec, 'out'), **kw)
        elif b['kind'] == 'timer':
            inst = b['inst']
            kw = {}
            for s, d in inst.get('t', {}).items():
                kw[f"t_{s}"] = fsmlib.mk_dur(d)
            if inst.get('t_period') is not None:
                kw['t_period'] = inst['t_period']
            if inst.get('initdef'):
                kw['initdef'] = inst['initdef']
            try:
                tcls = edzed.Timer
                if b.get('subclass'):
                    tcls = type('TimerSub', (edzed.Timer,), {'__doc__': 'adds nothing'})
                    run.fired('reach:trivial_subclass')
                blk = tcls(
                    inst['name'], restartable=inst.get('restartable', True),
                    on_enter_on=edzed.Event(nonlocal_rec, 'enter'),
                    on_enter_off=edzed.Event(nonlocal_rec, 'enter'),
                    on_exit_on=edzed.Event(nonlocal_rec, 'exit'),
                    on_exit_off=edzed.Event(nonlocal_rec, 'exit'),
                    on_notrans=edzed.Event(nonlocal_rec, 'nt'),
                    on_output=edzed.Event(nonlocal_rec, 'out'), **kw)
            except Exception as err:
                raise PlanError(f"Timer: {err}") from None
        else:
            inst = b['inst']
            kw = {}
            if 'init_value' in inst:
                kw['initdef'] = inst['init_value']
            try:
                icls = edzed.InputExp
                if b.get('subclass'):
                    icls = type('InputExpSub', (edzed.InputExp,), {'__doc__': 'adds nothing'})
                    run.fired('reach:trivial_subclass')
                blk = icls(
                    inst['name'], duration=inst.get('duration'), expired=inst.get('expired'),
                    on_enter_valid=edzed.Event(nonlocal_rec, 'enter'),
                    on_enter_expired=edzed.Event(nonlocal_rec, 'enter'),
                    on_exit_valid=edzed.Event(nonlocal_rec, 'exit'),
                    on_exit_expired=edzed.Event(nonlocal_rec, 'exit'),
                    on_notrans=edzed.Event(nonlocal_rec, 'nt'),
                    on_output=edzed.Event(nonlocal_rec, 'out'), **kw)
            except Exception as err:
                raise PlanError(f"InputExp: {err}") from None
        mon.blk = blk
        fsmlib.hook_events(blk, mon.hook)
        blk.event._sim_blk = blk
        monitors[b['name']] = mon
    for i, spec in enumerate(plan.get('slowstop') or []):
        try:
            SlowStop(f"slowstop{i}", x_run=run, x_spec=spec, stop_timeout=spec.get('timeout', 10.0),
                     x_ev_shutdown=edzed.Event('_ctrl', 'shutdown'),
                     x_ev_abort=edzed.Event('_ctrl', 'abort'))
        except Exception as err:
            raise PlanError(f"SlowStop: {err}") from None
    run.oasync = None
    if plan.get('oasync'):
        run.oasync = build_oasync(run, plan['oasync'], monitors)
    return monitors


def execute(plan, trace=False):
    run = Run(plan['knobs'])
    run.stopped = False
    run.stopping = False
    run.initialising = True
    run.driver_op = None
    run.last_driver_ns = None
    run.expect_abort = None
    run.simtask = None
    run.cleanup_depth = 0       # SlowStop blocks inside stop_async()
    run.oa_inflight = 0         # runs of the OutputAsync's coroutine in progress
    run.byst_names = set()
    run.monitors = {}
    run.keep = []
    run.closing = False
    try:
        monitors = build(run, plan)
        run.monitors = monitors
        circuit = edzed.get_circuit()
        loop = run.loop

        def quiescent():
            if run.stopped or run.initialising or circuit.error is not None:
                return
            for mon in monitors.values():
                mon.check_state('quiescent')
        loop.quiescence_hook = quiescent

        def do_op(op):
            if not circuit.is_ready():
                run.log('skipped', op)
                return
            kind = op['op']
            if kind == 'stall':
                dur_ns = int(op['dur'] * 1e9)
                loop.advance_ns(dur_ns)
                for mon in monitors.values():
                    mon.stall_credit += dur_ns
                run.fired('fault:stall')
                run.log('stall', op['dur'])
                return
            mon = monitors.get(op.get('blk'))
            if mon is None:
                raise PlanError('op refers to a missing block')
            if kind == 'flag':
                if mon.b['kind'] != 'gfsm':
                    raise PlanError('flag op on a library block')
                mon.blk.x_flags[op['key']] = op['val']
                mon.model.flags[op['key']] = op['val']
                run.log('flag', op['blk'], op['key'], op['val'])
                return
            run.driver_op = op
            run.last_driver_ns = loop._ns
            try:
                edzed.ExtEvent(mon.blk, op['ev']).send(**fsmlib.real_data(op['data']))
            except Exception as err:    # pylint: disable=broad-except
                run.log('op-exc', op['blk'], op['ev'], err)
            finally:
                run.driver_op = None

        def check_leftover():
            """No FSM timer may be pending once the simulation task has ended."""
            for mon in monitors.values():
                left = mon.my_timers()
                if left and not mon.leak_reported:
                    mon.leak_reported = True
                    # diagnosis: either the FSM still regards the timer as its active one
                    # (it was not stopped, or the timer was started after its stop()), or it
                    # has lost track of the handle (nothing can cancel it any more)
                    active = getattr(mon.blk, '_active_timer', None)
                    if not any(h is active for h in left):
                        mon.leak = '/orphaned-handle'
                    run.violate('C04/timer-after-stop' + mon.leak,
                                f"{mon.name()}: {len(left)} FSM timer(s) still pending after the "
                                "simulation stopped"
                                + (" (not the timer the FSM knows about)" if mon.leak else ""))

        def on_sim_end(_task):
            # run_forever() has ended, be it by shutdown(), by an error or by a failed start
            if run.harness_error is None and not loop.is_closed() and not run.closing:
                run.stopped = True
                run.log('sim-ended')
                check_leftover()

        def do_put(put):
            if not circuit.is_ready() or run.stopping:
                run.log('skipped-put', put)
                return
            run.log('put', put)
            try:
                edzed.ExtEvent(run.oasync).send(dict(put))
            except Exception as err:    # pylint: disable=broad-except
                run.log('put-exc', err)

        async def main():
            simtask = asyncio.create_task(circuit.run_forever())
            run.simtask = simtask
            simtask.add_done_callback(on_sim_end)
            try:
                await circuit.wait_init()
            except edzed.EdzedInvalidState as err:
                run.log('init-failed', err)
            run.initialising = False
            if run.expect_abort is None and any(
                    m.model.output == UNDEF for m in monitors.values()):
                run.expect_abort = 'uninitialised-after-start'
            if circuit.is_ready():
                for mon in monitors.values():
                    mon.check_state('after-init')
            for op in plan['ops']:
                run.at(float(op['t']), do_op, op)
            if run.oasync is not None:
                for put in plan['oasync'].get('puts', []):
                    run.at(float(put['t']), do_put, put)
            fut = loop.create_future()
            run.at(float(plan['stop_at']), fut.set_result, None)
            await fut
            term2 = plan.get('term2')
            if term2:
                # (scheduled only now: it must come after the first request)
                run.at(float(plan['stop_at']) + float(term2['dt']), terminate_again, run,
                       term2['how'])
            pending = sum(1 for m in monitors.values() if m.my_timers())
            if pending:
                run.fired('reach:stop_with_pending_timer')
            err = None
            run.stopping = True
            try:
                await circuit.shutdown()
            except Exception as exc:    # pylint: disable=broad-except
                err = exc
            run.stopped = True
            run.log('stopped', err)
            if run.expect_abort is not None:
                if not isinstance(err, edzed.EdzedCircuitError):
                    run.violate('C04/no-abort',
                                f"an FSM error ({run.expect_abort}) must stop the simulation with an "
                                f"EdzedCircuitError, shutdown() gave {canon(err)}")
            elif err is not None:
                run.violate('C04/unexpected-abort', f"simulation ended with {canon(err)}")
            await asyncio.sleep(0)
            return simtask

        run.run(main())
        if run.harness_error is None:
            check_leftover()
            run.run_more(float(plan.get('drain', 200.0)))
        res = run.result()
        if not (run.stats.get('reach:timer_expired') or run.stats.get('reach:timer_cancelled_by_exit')
                or run.stats.get('reach:rejected_timed_event')):
            res['behaviour'] = None
        if trace:
            res['trace'] = run.trace
        return res
    finally:
        run.closing = True
        run.close()
