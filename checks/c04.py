"""
C04 - a timed state yields its timed event exactly once, on time, unless left earlier.

Real code: edzed.FSM timers (generic generated FSMs), edzed.Timer, edzed.InputExp on the
virtual loop. Oracle: timed FSM reference model used as a *monitor*: it consumes the
observed order of external events and timer expirations (ties are legal both ways) and
checks every delivery, the single pending timer handle, its deadline, and silence after stop.
"""

from __future__ import annotations

import asyncio
import copy

from simkit import seams
from simkit.runner import Run, PlanError, canon, gen_knobs
from models.fsm_model import FsmModel, TimerModel, InputExpModel, ModelError, UNDEF
from checks import fsmlib

edzed = seams.install()

PROP = 'C04'
LEVEL = 'exploration'
RUNS = {'quick': 40000, 'thorough': 800000}
CHUNK = 250
RULE = ("one run = 1-3 timed blocks (generated timed FSM / Timer / InputExp) driven by 2-12 "
        "external events placed before, in the same instant as, or after predicted expirations, "
        "under drawn latency/cost/tie-order/stall knobs; non-trivial = at least one timer "
        "expiration was observed or cancelled; distinct = hash of the abstracted behaviour "
        "(per block: sequence of (origin, event, accepted, new state, timer armed), values and "
        "times removed)")
REACH_EXPECTED = ['tie_event_before_timer', 'tie_timer_before_event', 'timer_cancelled_by_exit',
                  'zero_duration_chain', 'rejected_timed_event', 'per_event_duration',
                  'stop_with_pending_timer', 'inf_duration', 'no_duration_error']
ASSUMPTIONS = [
    "durations given as strings are looked up in the generator's own table, not parsed by the model",
    "timer deadlines are compared with 1 microsecond tolerance; lateness bound = drawn latency + "
    "50 x per-callback cost + injected stalls",
]


# --------------------------------------------------------------------------- generation

DUR_EVENT = [0.3, 0.7, 1.0, 2.5, 0, 'inf', '0.25s', 'PT0.5S', '1.5s']
OFFSETS = [-0.1, -0.001, -1e-6, 0.0, 0.0, 0.0, 1e-6, 0.001, 0.1]


def make_model(b):
    if b['kind'] == 'gfsm':
        return FsmModel(b['spec'], b['inst'], fsmlib.STR_DURATIONS)
    if b['kind'] == 'timer':
        return TimerModel(b['inst'], fsmlib.STR_DURATIONS)
    if b['kind'] == 'inputexp':
        return InputExpModel(b['inst'], fsmlib.STR_DURATIONS)
    raise PlanError(f"unknown kind {b['kind']}")


def gen_block(rng, idx):
    r = rng.random()
    if r < 0.4:
        spec, inst = fsmlib.gen_spec(rng, idx, timers=True, max_states=3, max_events=2)
        if not spec['timers']:
            s = rng.choice(spec['states'])
            spec['timers'][s] = {'dur': rng.choice([0.5, 1.0]),
                                 'ev': rng.choice([r_[0] for r_ in spec['rules']])}
        return {'kind': 'gfsm', 'name': inst['name'], 'spec': spec, 'inst': inst}
    if r < 0.75:
        inst = {'name': f"t{idx}", 't': {}, 'restartable': rng.random() < 0.6}
        mode = rng.random()
        if mode < 0.25:
            inst['t_period'] = rng.choice([1.0, 2.0, 0.5])
        else:
            if rng.random() < 0.75:
                inst['t']['on'] = rng.choice([0.5, 1.0, 2.0, '0.25s', '1m30s', 0])
            if rng.random() < 0.35:
                inst['t']['off'] = rng.choice([0.5, 1.0, 3.0, '2s'])
        if rng.random() < 0.3:
            inst['initdef'] = 'on'
        if inst['t'].get('on') == 0 and inst['t'].get('off') is not None:
            inst['t']['on'] = 0.5    # avoid a trivially endless astable at zero duration
        return {'kind': 'timer', 'name': inst['name'], 'inst': inst}
    inst = {'name': f"x{idx}", 'duration': rng.choice([0.5, 1.0, 2.0, None, '2s', 'PT0.5S']),
            'expired': rng.choice([None, 'EXP', 0, False])}
    if rng.random() < 0.4 and inst['duration'] is not None:
        inst['init_value'] = rng.choice([1, 'init', 0])
    return {'kind': 'inputexp', 'name': inst['name'], 'inst': inst}


def block_events(b):
    if b['kind'] == 'gfsm':
        return sorted({r[0] for r in b['spec']['rules']})
    if b['kind'] == 'timer':
        return ['start', 'stop', 'toggle']
    return ['put']


def gen(rng, tier, index=0):
    nblocks = rng.choice([1, 1, 2, 3])
    blocks = [gen_block(rng, i) for i in range(nblocks)]
    exact = rng.random() < 0.5
    knobs = gen_knobs(rng, latency=not exact, cost=not exact, ties=True)
    if exact:
        knobs['tie_permute'] = rng.random() < 0.7
    # generation-time simulation, only to place events relative to expirations
    models = {b['name']: make_model(b) for b in blocks}
    deadlines = {}
    alive = True

    def arm(name, t):
        m = models[name]
        if m.timer is not None:
            deadlines[name] = (t + m.timer[0], m.timer[1])
        elif not m.has_timer:
            deadlines.pop(name, None)

    def fire_until(t):
        nonlocal alive
        for _ in range(200):
            due = sorted((d, n) for n, (d, _e) in deadlines.items() if d < t)
            if not due:
                return
            d, n = due[0]
            _, ev = deadlines.pop(n)
            try:
                models[n].event(ev, {})
            except ModelError as err:
                if err.kind != 'unknown-event':
                    alive = False
                    return
            arm(n, d)

    for b in blocks:
        m = models[b['name']]
        init = b['inst'].get('initdef') or m.states[0]
        try:
            m.event({'goto': init}, {})
        except ModelError:
            alive = False
        arm(b['name'], 0.0)
    ops = []
    t = 0.05
    nops = rng.randint(2, 12 if tier == 'thorough' else 9)
    for _ in range(nops):
        if not alive:
            break
        b = rng.choice(blocks)
        name = b['name']
        if deadlines and rng.random() < 0.65:
            d = rng.choice(sorted(v[0] for v in deadlines.values()))
            t = max(t, d + rng.choice(OFFSETS))
        else:
            t += rng.choice([0.0, 0.01, 0.2, 0.4, 1.1])
        t = round(t, 6)
        fire_until(t)
        if not alive:
            break
        r = rng.random()
        if b['kind'] == 'gfsm' and r < 0.15:
            evs = block_events(b)
            key = rng.choice(['m:', 'i:']) + rng.choice(evs)
            val = rng.random() < 0.4
            ops.append({'t': t, 'op': 'flag', 'blk': name, 'key': key, 'val': val})
            models[name].flags[key] = val
            continue
        if r < 0.2 and not exact:
            ops.append({'t': t, 'op': 'stall', 'dur': rng.choice([0.001, 0.05, 0.7, 3.0])})
            continue
        ev = rng.choice(block_events(b))
        data = {}
        if rng.random() < 0.3:
            data['duration'] = rng.choice(DUR_EVENT)
        if b['kind'] == 'inputexp':
            data['value'] = rng.choice([1, 2, 'v', None, 0])
        elif rng.random() < 0.15:
            data['ok'] = False
        if rng.random() < 0.04:
            ev = 'bogus'
        ops.append({'t': t, 'op': 'ev', 'blk': name, 'ev': ev, 'data': data})
        try:
            models[name].event(ev, data)
        except ModelError as err:
            if err.kind != 'unknown-event':
                alive = False
                break
        arm(name, t)
    stop_at = round(t + rng.choice([0.0, 0.001, 0.3, 1.0, 5.0]), 6)
    plan = {'knobs': knobs, 'blocks': blocks, 'ops': ops, 'stop_at': stop_at, 'drain': 200.0}
    # fault: bystander blocks whose stop() raises (an error in one block's clean-up must not
    # keep the FSMs from being stopped; where they come in the stop order is up to hash_salt)
    plan['failstop'] = rng.choice([0, 0, 0, 0, 1, 2, 3])
    return plan


# --------------------------------------------------------------------------- monitor

class Monitor:

    def __init__(self, run, b, blk, model):
        self.run = run
        self.b = b
        self.blk = blk
        self.model = model
        self.lib = b['kind'] != 'gfsm'
        self.depth = 0
        self.cblog = []
        self.deadline_ns = None
        self.deadline_when = None
        self.timed_event = None
        self.dead = False
        self.stall_credit = 0
        self.origin = None
        self.last_fire_ns = None
        self.top = None
        k = run.knobs
        self.slack = k['latency_ns'] + 50 * k['cost_ns'] + 1000

    def name(self):
        return self.b['name']

    def sink(self, _blk, entry):
        self.cblog.append(entry)

    def rec(self, _rec, _etype, data):
        self.cblog.append(fsmlib.fsm_log_entry(data))

    # ---- event hook ----
    def hook(self, phase, blk, etype, arg):
        run = self.run
        if run.stopped:
            run.violate('C04/event-after-stop',
                        f"{self.name()}: event {canon(etype)} delivered after the simulation stopped")
            return
        if phase == 'pre':
            self.depth += 1
            if self.depth > 1:
                return
            self.cblog = []
            now = run.loop._ns
            jetype = {'goto': etype.state} if isinstance(etype, edzed.Goto) else etype
            self.top = (jetype, dict(arg))
            if run.driver_op is not None and run.driver_op.get('blk') == self.name():
                self.origin = 'ext'
                if (self.deadline_ns is not None and not self.dead
                        and now - self.deadline_ns > self.slack + self.stall_credit):
                    run.violate('C04/timer-overdue',
                                f"{self.name()}: timed event {self.timed_event} was due "
                                f"{(now - self.deadline_ns) / 1e9:.6f}s ago and was not delivered")
                if self.deadline_ns is not None and now >= self.deadline_ns:
                    run.fired('reach:tie_event_before_timer')
                if self.last_fire_ns == now:
                    run.fired('reach:tie_timer_before_event')
            elif run.initialising:
                self.origin = 'init'
            else:
                self.origin = 'timer'
                if self.dead:
                    return
                if self.deadline_ns is None:
                    run.violate('C04/stale-or-spurious-timed-event',
                                f"{self.name()}: event {canon(etype)} delivered by a timer although "
                                "no timer should be pending (state left or re-entered?)")
                else:
                    if canon(jetype) != canon(self.timed_event) or arg:
                        run.violate('C04/wrong-timed-event',
                                    f"{self.name()}: timer delivered {canon(etype)} {canon(arg)}, "
                                    f"expected {self.timed_event}")
                    if now < self.deadline_ns - 1:
                        run.violate('C04/timer-early',
                                    f"{self.name()}: timed event {(self.deadline_ns - now) / 1e9:.9f}s early")
                    elif now - self.deadline_ns > self.slack + self.stall_credit:
                        run.violate('C04/timer-late',
                                    f"{self.name()}: timed event {(now - self.deadline_ns) / 1e9:.6f}s late "
                                    f"(allowed {(self.slack + self.stall_credit) / 1e9:.6f})")
                    self.last_fire_ns = now
            return
        # post / exc
        self.depth -= 1
        if self.depth > 0:
            return
        if self.dead:
            return
        self.finish(phase, arg)

    def finish(self, phase, arg):
        run = self.run
        model = self.model
        jetype, data = self.top
        had_timer = model.has_timer
        old_state = model.state
        exp_exc = None
        accepted = None
        try:
            accepted = model.event(jetype, data)
        except ModelError as err:
            exp_exc = err.kind
        origin = self.origin
        run.log('fsm-event', self.name(), origin, canon(jetype), canon(data), phase,
                canon(arg), model.state)
        run.beh(self.name()[0], origin, 'bogus' if exp_exc == 'unknown-event' else
                ('E' if isinstance(jetype, str) else 'G'),
                exp_exc or accepted, model.state, model.timer is not None)
        if exp_exc is not None:
            if exp_exc == 'unknown-event':
                if phase != 'exc' or not isinstance(arg, edzed.EdzedUnknownEvent):
                    run.violate('C04/unknown-event-not-reported',
                                f"{self.name()}: unknown event {jetype}: {phase} {canon(arg)}")
                return
            self.dead = True
            if not run.stopping:
                # (an error after shutdown() was called cannot replace the cancellation)
                run.expect_abort = exp_exc
            run.fired('reach:' + {'no-duration': 'no_duration_error',
                                  'chain-limit': 'chain_limit_error',
                                  'multi-chain': 'multi_chain_error'}.get(exp_exc, exp_exc))
            if phase != 'exc':
                run.violate('C04/missing-error',
                            f"{self.name()}: event {canon(jetype)} {canon(data)} should fail "
                            f"({exp_exc}) but returned {canon(arg)}")
            self.deadline_ns = None
            return
        if phase == 'exc':
            run.violate('C04/unexpected-exception',
                        f"{self.name()}: event {canon(jetype)} {canon(data)} raised {canon(arg)}")
            self.dead = True
            return
        if bool(arg) != bool(accepted) or not isinstance(arg, bool):
            run.violate('C04/wrong-result',
                        f"{self.name()}: event {canon(jetype)} {canon(data)} in state {old_state} "
                        f"returned {canon(arg)}, expected {accepted}")
        # callback / generated-event log
        exp_log = model.log
        obs_log = fsmlib.normalise_observed(self.cblog)
        if self.lib:
            exp_log = [e for e in exp_log if e[0] in ('on_enter', 'on_exit', 'notrans', 'on_output')]
        msg = fsmlib.compare_logs(canon(exp_log), canon(obs_log))
        if msg and not msg.startswith('event-data:'):
            # (what the actions read through fsm_event_data is C03's business, not C04's)
            run.violate('C04/action-log', f"{self.name()}: event {canon(jetype)}: {msg}")
        # timer bookkeeping
        if accepted:
            if had_timer and origin != 'timer':
                run.fired('reach:timer_cancelled_by_exit')
            if any(e[0] == 'zero-timer' for e in model.log):
                run.fired('reach:zero_duration_chain')
            if data.get('duration') is not None and model.state in model.spec.get('timers', {}):
                run.fired('reach:per_event_duration')
            if model.timer is not None:
                when = run.loop.time() + model.timer[0]
                self.deadline_when = when
                self.deadline_ns = int(round(when * 1e9))
                self.timed_event = model.timer[1]
                self.stall_credit = 0
            else:
                if model.state in model.spec.get('timers', {}) and not model.has_timer:
                    run.fired('reach:inf_duration')
                self.deadline_ns = None
        else:
            if origin == 'timer':
                # rejected timed event: stays in the state without a timer
                run.fired('reach:rejected_timed_event')
                model.has_timer = False
                self.deadline_ns = None
        if origin == 'timer' and accepted:
            run.fired('reach:timer_expired')
        self.check_state('after-event')

    # ---- invariants ----
    def my_timers(self):
        loop = self.run.loop
        # due timers already moved to the ready queue still count as pending
        ready = [h for h in loop._ready if hasattr(h, '_when') and not h._cancelled]
        # the timer callback is blk.event (hooked: tagged with _sim_blk) or a bound method
        # of the block (e.g. FSM._timer_expired)
        return [h for h in loop.live_timers() + ready
                if getattr(h._callback, '_sim_blk', None) is self.blk
                or getattr(h._callback, '__self__', None) is self.blk]

    def check_state(self, where):
        run = self.run
        blk = self.blk
        model = self.model
        if self.dead:
            return
        st = canon(blk.state)
        if st != model.state:
            run.violate('C04/wrong-state', f"{self.name()} {where}: state {st}, expected {model.state}")
        if canon(blk.output) != canon(model.output if model.output != UNDEF else edzed.UNDEF):
            run.violate('C04/wrong-output',
                        f"{self.name()} {where}: output {canon(blk.output)}, expected {canon(model.output)}")
        timers = self.my_timers()
        if len(timers) > 1:
            run.violate('C04/two-timers', f"{self.name()} {where}: {len(timers)} timers pending")
        want = self.deadline_ns is not None
        if bool(timers) != want:
            run.violate('C04/timer-presence',
                        f"{self.name()} {where}: pending timer={bool(timers)}, expected {want} "
                        f"(state {model.state})")
        elif timers and abs(timers[0]._when - self.deadline_when) > 1e-6:
            run.violate('C04/wrong-deadline',
                        f"{self.name()} {where}: timer expires at {timers[0]._when:.6f}, "
                        f"expected {self.deadline_when:.6f}")
        if want and timers and where == 'quiescent':
            with seams.free_reads():
                exp_ts = blk.get_state()[1]
            off = seams.S.wall_offset_ns / 1e9
            if exp_ts is None or abs(exp_ts - (self.deadline_when + off)) > 5e-5:
                run.violate('C04/get-state-expiration',
                            f"{self.name()}: get_state() expiration {exp_ts}, expected "
                            f"{self.deadline_when + off:.6f}")
        if where == 'quiescent' and self.deadline_ns is not None:
            now = run.loop._ns
            if now - self.deadline_ns > self.slack + self.stall_credit:
                run.violate('C04/timer-overdue',
                            f"{self.name()}: timed event {self.timed_event} overdue by "
                            f"{(now - self.deadline_ns) / 1e9:.6f}s at an idle point")


# --------------------------------------------------------------------------- execution

class FailStop(edzed.SBlock):
    """Bystander whose clean-up fails."""

    def init_regular(self):
        self.set_output(0)

    def stop(self):
        super().stop()
        self.x_run.fired('fault:user_fn_raises:stop')
        raise RuntimeError(f"injected stop() failure in {self.name}")


def build(run, plan):
    monitors = {}
    rec_n = 0
    for i in range(int(plan.get('failstop', 0))):
        FailStop(f"failstop{i}", x_run=run)
    for b in plan['blocks']:
        model = make_model(b)
        mon = Monitor(run, b, None, model)
        nonlocal_rec = fsmlib.Recorder(f"rec_{b['name']}", x_sink=mon.rec)
        rec_n += 1
        if b['kind'] == 'gfsm':
            cls = fsmlib.build_class(b['spec'], mon.sink)
            states = model.states
            kw = {}
            for s in states:
                kw[f"on_enter_{s}"] = edzed.Event(nonlocal_rec, 'enter')
                kw[f"on_exit_{s}"] = edzed.Event(nonlocal_rec, 'exit')
            blk = fsmlib.build_instance(
                cls, b['spec'], b['inst'], mon.sink, on_notrans=edzed.Event(nonlocal_rec, 'nt'),
                on_output=edzed.Event(nonlocal_rec, 'out'), **kw)
        elif b['kind'] == 'timer':
            inst = b['inst']
            kw = {}
            for s, d in inst.get('t', {}).items():
                kw[f"t_{s}"] = fsmlib.mk_dur(d)
            if inst.get('t_period') is not None:
                kw['t_period'] = inst['t_period']
            if inst.get('initdef'):
                kw['initdef'] = inst['initdef']
            try:
                blk = edzed.Timer(
                    inst['name'], restartable=inst.get('restartable', True),
                    on_enter_on=edzed.Event(nonlocal_rec, 'enter'),
                    on_enter_off=edzed.Event(nonlocal_rec, 'enter'),
                    on_exit_on=edzed.Event(nonlocal_rec, 'exit'),
                    on_exit_off=edzed.Event(nonlocal_rec, 'exit'),
                    on_notrans=edzed.Event(nonlocal_rec, 'nt'),
                    on_output=edzed.Event(nonlocal_rec, 'out'), **kw)
            except Exception as err:
                raise PlanError(f"Timer: {err}") from None
        else:
            inst = b['inst']
            kw = {}
            if 'init_value' in inst:
                kw['initdef'] = inst['init_value']
            try:
                blk = edzed.InputExp(
                    inst['name'], duration=inst.get('duration'), expired=inst.get('expired'),
                    on_enter_valid=edzed.Event(nonlocal_rec, 'enter'),
                    on_enter_expired=edzed.Event(nonlocal_rec, 'enter'),
                    on_exit_valid=edzed.Event(nonlocal_rec, 'exit'),
                    on_exit_expired=edzed.Event(nonlocal_rec, 'exit'),
                    on_notrans=edzed.Event(nonlocal_rec, 'nt'),
                    on_output=edzed.Event(nonlocal_rec, 'out'), **kw)
            except Exception as err:
                raise PlanError(f"InputExp: {err}") from None
        mon.blk = blk
        fsmlib.hook_events(blk, mon.hook)
        blk.event._sim_blk = blk
        monitors[b['name']] = mon
    return monitors


def execute(plan, trace=False):
    run = Run(plan['knobs'])
    run.stopped = False
    run.stopping = False
    run.initialising = True
    run.driver_op = None
    run.last_driver_ns = None
    run.expect_abort = None
    try:
        monitors = build(run, plan)
        circuit = edzed.get_circuit()
        loop = run.loop

        def quiescent():
            if run.stopped or run.initialising or circuit.error is not None:
                return
            for mon in monitors.values():
                mon.check_state('quiescent')
        loop.quiescence_hook = quiescent

        def do_op(op):
            if not circuit.is_ready():
                run.log('skipped', op)
                return
            kind = op['op']
            if kind == 'stall':
                dur_ns = int(op['dur'] * 1e9)
                loop.advance_ns(dur_ns)
                for mon in monitors.values():
                    mon.stall_credit += dur_ns
                run.fired('fault:stall')
                run.log('stall', op['dur'])
                return
            mon = monitors.get(op.get('blk'))
            if mon is None:
                raise PlanError('op refers to a missing block')
            if kind == 'flag':
                if mon.b['kind'] != 'gfsm':
                    raise PlanError('flag op on a library block')
                mon.blk.x_flags[op['key']] = op['val']
                mon.model.flags[op['key']] = op['val']
                run.log('flag', op['blk'], op['key'], op['val'])
                return
            run.driver_op = op
            run.last_driver_ns = loop._ns
            try:
                edzed.ExtEvent(mon.blk, op['ev']).send(**fsmlib.real_data(op['data']))
            except Exception as err:    # pylint: disable=broad-except
                run.log('op-exc', op['blk'], op['ev'], err)
            finally:
                run.driver_op = None

        async def main():
            simtask = asyncio.create_task(circuit.run_forever())
            try:
                await circuit.wait_init()
            except edzed.EdzedInvalidState as err:
                run.log('init-failed', err)
            run.initialising = False
            if run.expect_abort is None and any(
                    m.model.output == UNDEF for m in monitors.values()):
                run.expect_abort = 'uninitialised-after-start'
            if circuit.is_ready():
                for mon in monitors.values():
                    mon.check_state('after-init')
            for op in plan['ops']:
                run.at(float(op['t']), do_op, op)
            fut = loop.create_future()
            run.at(float(plan['stop_at']), fut.set_result, None)
            await fut
            pending = sum(1 for m in monitors.values() if m.my_timers())
            if pending:
                run.fired('reach:stop_with_pending_timer')
            err = None
            run.stopping = True
            try:
                await circuit.shutdown()
            except Exception as exc:    # pylint: disable=broad-except
                err = exc
            run.stopped = True
            run.log('stopped', err)
            if run.expect_abort is not None:
                if not isinstance(err, edzed.EdzedCircuitError):
                    run.violate('C04/no-abort',
                                f"an FSM error ({run.expect_abort}) must stop the simulation with an "
                                f"EdzedCircuitError, shutdown() gave {canon(err)}")
            elif err is not None:
                run.violate('C04/unexpected-abort', f"simulation ended with {canon(err)}")
            await asyncio.sleep(0)
            return simtask

        run.run(main())
        if run.harness_error is None:
            for mon in monitors.values():
                left = mon.my_timers()
                if left:
                    run.violate('C04/timer-after-stop',
                                f"{mon.name()}: {len(left)} FSM timer(s) still pending after the "
                                "simulation stopped")
            run.run_more(float(plan.get('drain', 200.0)))
        res = run.result()
        if not (run.stats.get('reach:timer_expired') or run.stats.get('reach:timer_cancelled_by_exit')
                or run.stats.get('reach:rejected_timed_event')):
            res['behaviour'] = None
        if trace:
            res['trace'] = run.trace
        return res
    finally:
        run.close()
