"""
Generic structural plan minimiser (delta debugging over the JSON plan).

test(plan) -> True iff the same violation signature still occurs. Plans that can no
longer be interpreted raise PlanError inside execute(), which counts as "does not
reproduce", so the passes may cut freely.
"""

from __future__ import annotations

import copy
import time


def _paths(node, prefix=()):
    """Yield paths of all lists and numbers inside the plan."""
    if isinstance(node, dict):
        for key in sorted(node):
            if str(key).startswith('_') or key in ('seed', 'index'):
                continue
            yield from _paths(node[key], prefix + (key,))
    elif isinstance(node, list):
        yield ('list', prefix)
        for i, item in enumerate(node):
            yield from _paths(item, prefix + (i,))
    elif isinstance(node, bool):
        yield ('bool', prefix)
    elif isinstance(node, (int, float)):
        yield ('num', prefix)


def _get(plan, path):
    for p in path:
        plan = plan[p]
    return plan


def _set(plan, path, value):
    for p in path[:-1]:
        plan = plan[p]
    plan[path[-1]] = value


def shrink(plan, test, max_runs=400, max_seconds=90.0, frozen=('knobs',)):
    t0 = time.time()
    runs = 0
    best = copy.deepcopy(plan)

    def attempt(candidate):
        nonlocal runs, best
        if runs >= max_runs or time.time() - t0 > max_seconds:
            return False
        runs += 1
        try:
            ok = test(candidate)
        except Exception:   # pylint: disable=broad-except
            ok = False
        if ok:
            best = candidate
        return ok

    progress = True
    rounds = 0
    while progress and rounds < 6 and runs < max_runs and time.time() - t0 <= max_seconds:
        progress = False
        rounds += 1
        # pass 1: knobs towards the simplest schedule
        knobs = best.get('knobs')
        if isinstance(knobs, dict):
            for key, simple in (('latency_ns', 0), ('cost_ns', 0), ('tie_permute', False),
                                ('origin_ns', 0), ('hash_salt', 0)):
                if knobs.get(key) not in (simple, None):
                    cand = copy.deepcopy(best)
                    cand['knobs'][key] = simple
                    if attempt(cand):
                        progress = True
        # pass 2: remove list elements (longest lists first; chunks then singles)
        list_paths = [p for kind, p in _paths(best) if kind == 'list' and (not p or p[0] not in frozen)]
        list_paths.sort(key=lambda p: -len(_get(best, p)))
        for path in list_paths:
            try:
                lst = _get(best, path)
            except (KeyError, IndexError, TypeError):
                continue
            if not isinstance(lst, list):
                continue
            n = len(lst)
            size = max(1, n // 2)
            while size >= 1 and n > 0:
                i = 0
                removed_any = False
                while i < n:
                    cand = copy.deepcopy(best)
                    try:
                        clst = _get(cand, path)
                    except (KeyError, IndexError, TypeError):
                        break
                    del clst[i:i + size]
                    if attempt(cand):
                        progress = True
                        removed_any = True
                        n = len(_get(best, path))
                    else:
                        i += size
                if size == 1 and not removed_any:
                    break
                size = size // 2 if size > 1 else (1 if removed_any else 0)
        # pass 3: booleans to False, numbers towards small values
        for kind, path in list(_paths(best)):
            if path and path[0] in frozen:
                continue
            try:
                cur = _get(best, path)
            except (KeyError, IndexError, TypeError):
                continue
            if kind == 'bool' and cur is True:
                cand = copy.deepcopy(best)
                _set(cand, path, False)
                if attempt(cand):
                    progress = True
            elif kind == 'num' and not isinstance(cur, bool):
                for simple in (0, 1, round(cur / 2, 3) if isinstance(cur, float) else cur // 2):
                    if simple == cur or abs(simple) >= abs(cur):
                        continue
                    if isinstance(cur, float):
                        simple = float(simple)
                    cand = copy.deepcopy(best)
                    _set(cand, path, simple)
                    if attempt(cand):
                        progress = True
                        break
    return best, runs
