"""
One simulated execution: loop + seams + trace + verdicts.
"""

from __future__ import annotations

import asyncio
import collections
import hashlib
import json
import random

from . import seams
from .loop import VirtualLoop, SimError, SimDeadlock, SimStepCap, SimLivelock


class PlanError(Exception):
    """The plan cannot be interpreted (only happens to shrunk plans)."""


def canon(x, depth=0):
    """Convert to deterministic JSON-able data (no addresses, no hash order)."""
    if depth > 8:
        return '<deep>'
    if x is None or isinstance(x, (bool, int, str)):
        return x
    if isinstance(x, float):
        if x != x:
            return 'nan'
        if x in (float('inf'), float('-inf')):
            return str(x)
        return round(x, 7)
    if isinstance(x, (list, tuple)):
        return [canon(i, depth + 1) for i in x]
    if isinstance(x, dict) or hasattr(x, 'keys') and hasattr(x, '__getitem__'):
        try:
            return {str(k): canon(x[k], depth + 1) for k in sorted(x.keys(), key=str)}
        except Exception:   # pylint: disable=broad-except
            return '<mapping>'
    if isinstance(x, (set, frozenset)):
        return sorted((json.dumps(canon(i, depth + 1), sort_keys=True) for i in x))
    if isinstance(x, BaseException):
        return f"{type(x).__name__}: {x}"
    edzed = seams.edzed
    if edzed is not None:
        if x is edzed.UNDEF:
            return '<UNDEF>'
        if isinstance(x, edzed.Block):
            return f"<blk {x.name}>"
        if isinstance(x, edzed.Goto):
            return f"Goto({x.state})"
    return f"<{type(x).__name__}>"


def gen_knobs(rng: random.Random, *, latency=True, cost=True, ties=True, min_cost_ns=0,
              origins=True) -> dict:
    """Draw the loop knobs of a run (swarm style: many runs have a knob switched off)."""
    k = {
        'origin_ns': 0,
        'latency_ns': 0,
        'cost_ns': min_cost_ns,
        'tie_permute': False,
        'knob_seed': rng.randrange(1 << 30),
        'hash_salt': rng.randrange(1 << 16),
    }
    if origins:
        k['origin_ns'] = rng.choice([0, 0, 1_000_000_000_000, 1_000_000_000_000_000 // 1000,
                                     123_456_789, 5_000_000_000])
    if latency and rng.random() < 0.5:
        k['latency_ns'] = rng.choice([50_000, 300_000, 2_000_000])
    if cost and rng.random() < 0.5:
        k['cost_ns'] = max(min_cost_ns, rng.choice([5_000, 20_000, 200_000]))
    if ties and rng.random() < 0.6:
        k['tie_permute'] = True
    return k


EXACT_KNOBS = {'origin_ns': 0, 'latency_ns': 0, 'cost_ns': 0, 'tie_permute': False,
               'knob_seed': 0, 'hash_salt': 0}


class Run:
    """State of one simulated execution."""

    def __init__(self, knobs: dict, *, wall_start_us: int = 1_700_000_000_000_000,
                 tz_offset_s: int = 0, max_steps: int = 200_000, read_cost_ns: int = 1_000,
                 clock_gran_us: int = 1):
        k = dict(EXACT_KNOBS)
        k.update(knobs or {})
        if 'debug' not in k:
            # a fifth of the runs (decided by the plan, no extra PRNG draw) have the debug
            # messages of every block and of the circuit switched on
            k['debug'] = k['hash_salt'] % 5 == 1
        self.knobs = k
        self.loop = VirtualLoop(
            origin_ns=k['origin_ns'], latency_ns=k['latency_ns'], cost_ns=k['cost_ns'],
            knob_seed=k['knob_seed'], tie_permute=k['tie_permute'], max_steps=max_steps)
        seams.bind(self.loop, wall_start_us=wall_start_us, tz_offset_s=tz_offset_s,
                   hash_salt=k['hash_salt'], read_cost_ns=read_cost_ns,
                   clock_gran_us=clock_gran_us, debug=k['debug'])
        self.edzed = seams.edzed
        self.t0 = self.loop.time()
        self.trace = []
        self.violations = []        # [(signature, message)]
        self.stats = collections.Counter()   # faults fired, reach probes
        self.harness_error = None
        self.behaviour = []         # abstracted trace for the "distinct" measure
        self.main_result = None
        self.main_exc = None
        if k['debug']:
            self.stats['reach:debug_messages_on'] += 1

    # ---- recording ----
    def now(self) -> float:
        """Virtual time relative to the start of the run."""
        return (self.loop._ns - self.knobs['origin_ns']) / 1e9

    def log(self, kind: str, *data) -> None:
        self.trace.append([len(self.trace), self.loop._ns - self.knobs['origin_ns'], kind,
                           canon(data)])

    def beh(self, *items) -> None:
        self.behaviour.append(items if len(items) != 1 else items[0])

    def violate(self, sig: str, msg: str) -> None:
        self.log('VIOLATION', sig, msg)
        if len(self.violations) < 20:
            self.violations.append((sig, msg))

    def fired(self, kind: str, n: int = 1) -> None:
        self.stats[kind] += n

    # ---- driving ----
    def at(self, t: float, fn, *args):
        """Schedule a driver operation at virtual time t (relative to run start), exactly."""
        return self.loop.call_exact(self.t0 + t, fn, *args)

    def run(self, coro) -> None:
        """Run the main coroutine to completion; record harness verdicts."""
        loop = self.loop
        try:
            self.main_result = loop.run_until_complete(coro)
        except SimDeadlock as err:
            self.harness_error = f"DEADLOCK: {err}"
        except SimStepCap as err:
            self.harness_error = f"STEPCAP: {err}"
        except SimLivelock as err:
            self.harness_error = f"LIVELOCK: {err}"
        except SimError as err:
            self.harness_error = f"SIM: {err}"
        except (Exception, asyncio.CancelledError) as err:     # pylint: disable=broad-except
            self.main_exc = err
        finally:
            if self.harness_error:
                # the coroutine object may be left un-awaited; make sure it is closed
                try:
                    coro.close()
                except BaseException:   # pylint: disable=broad-except
                    pass

    def run_more(self, seconds: float) -> None:
        """Let the loop run further (after the main coroutine ended)."""
        try:
            self.loop.run_for(seconds)
        except SimError as err:
            self.harness_error = self.harness_error or f"{type(err).__name__}: {err}"

    # ---- leak inspection ----
    def describe_task(self, task) -> str:
        coro = task.get_coro()
        name = task.get_name()
        if name.startswith('Task-'):
            name = ''
        return f"{getattr(coro, '__qualname__', type(coro).__name__)}|{name}"

    def pending_tasks(self, exclude=()):
        return sorted(
            self.describe_task(t) for t in self.loop.pending_tasks() if t not in exclude)

    def live_timers(self):
        out = []
        for h in self.loop.live_timers():
            cb = h._callback
            owner = getattr(cb, '__self__', None)
            out.append((getattr(cb, '__qualname__', repr(type(cb))),
                        canon(owner) if owner is not None else None, h))
        return out

    # ---- result ----
    def result(self) -> dict:
        loop = self.loop
        for key in ('late_timer', 'tie_swapped'):
            if loop.stats[key]:
                self.stats[key] += loop.stats[key]
        digest = hashlib.sha256(
            json.dumps(self.trace, sort_keys=True, default=str).encode()).hexdigest()
        beh = None
        if self.behaviour:
            beh = hashlib.sha256(
                json.dumps(canon(self.behaviour), sort_keys=True).encode()).hexdigest()[:16]
        res = {
            'violations': [list(v) for v in self.violations],
            'harness_error': self.harness_error,
            'digest': digest,
            'behaviour': beh,
            'stats': dict(self.stats),
            'steps': loop.steps,
            'sim_seconds': self.now(),
            'trace_len': len(self.trace),
        }
        return res

    def close(self):
        self.loop.shutdown_sim()
