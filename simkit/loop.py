"""
Virtual-time asyncio event loop for deterministic simulation.

VirtualLoop is a real asyncio.BaseEventLoop (tasks, futures, queues, wait_for,
shield ... are all stock asyncio code) whose clock and scheduler are owned by
the simulator:

 - time() is an integer nanosecond counter (returned as float seconds),
 - when nothing is runnable the clock *jumps* to the next timer,
 - wake-up latency, per-callback CPU cost, equal-deadline tie order are drawn
   from PRNGs that are part of the run's plan,
 - the ready queue is never permuted (asyncio documents FIFO order),
 - a quiescence hook is called whenever the ready queue is empty.
"""

from __future__ import annotations

import asyncio
import heapq
import math
import random
from asyncio import events


class SimError(Exception):
    """Base of the harness verdicts raised out of the loop."""


class SimDeadlock(SimError):
    """Nothing ready, nothing scheduled, main future not done."""


class SimStepCap(SimError):
    """Too many callbacks executed."""


class SimLivelock(SimError):
    """Too many loop iterations without the virtual clock advancing (Zeno)."""


class SimTimerHandle(asyncio.TimerHandle):
    __slots__ = ('_sim_seq', '_sim_exact')


class VirtualLoop(asyncio.BaseEventLoop):

    def __init__(self, *, origin_ns: int = 0, latency_ns: int = 0, cost_ns: int = 0,
                 knob_seed: int = 0, tie_permute: bool = False,
                 max_steps: int = 200_000, max_zeno_iters: int = 20_000):
        super().__init__()
        self._ns = int(origin_ns)
        self._latency_ns = int(latency_ns)
        self._cost_ns = int(cost_ns)
        self._tie_permute = bool(tie_permute)
        self._rng_lat = random.Random(knob_seed * 3 + 1)
        self._rng_cost = random.Random(knob_seed * 3 + 2)
        self._rng_tie = random.Random(knob_seed * 3 + 3)
        self._seq = 0
        self.max_steps = max_steps
        self.max_zeno_iters = max_zeno_iters
        self.steps = 0
        self.iterations = 0
        self._zeno_iters = 0
        self._zeno_ns = self._ns
        self.quiescence_hook = None     # callable() or None
        self.stats = {'late_timer': 0, 'tie_groups': 0, 'tie_swapped': 0, 'jumps': 0,
                      'quiescent_points': 0}
        self._in_exact = False          # the handle being run is an exact driver handle

    # ---- clock ----
    def time(self) -> float:
        return self._ns / 1e9

    @property
    def ns(self) -> int:
        return self._ns

    def advance_ns(self, delta_ns: int) -> None:
        """Advance the clock from inside a callback (CPU cost, stall, blocking sleep)."""
        if delta_ns > 0:
            self._ns += int(delta_ns)

    # ---- things a selector loop would provide ----
    def _process_events(self, event_list):
        pass

    def _write_to_self(self):
        pass

    # ---- timers ----
    def call_at(self, when, callback, *args, context=None, exact=False):
        if when is None:
            raise TypeError("when cannot be None")
        self._check_closed()
        timer = SimTimerHandle(when, callback, args, self, context)
        self._seq += 1
        timer._sim_seq = self._seq
        timer._sim_exact = exact
        if timer._source_traceback:
            del timer._source_traceback[-1]
        heapq.heappush(self._scheduled, timer)
        timer._scheduled = True
        return timer

    def call_exact(self, when: float, callback, *args):
        """Driver handle: runs at exactly 'when' (no wake-up latency is added for it)."""
        return self.call_at(when, callback, *args, exact=True)

    def live_timers(self):
        """Non-cancelled scheduled handles."""
        return [h for h in self._scheduled if not h._cancelled]

    # ---- the scheduler ----
    def _prune_cancelled(self):
        sched = self._scheduled
        if sched and self._timer_cancelled_count > 50:
            new = []
            for handle in sched:
                if handle._cancelled:
                    handle._scheduled = False
                else:
                    new.append(handle)
            heapq.heapify(new)
            self._scheduled = new
            self._timer_cancelled_count = 0
        else:
            while self._scheduled and self._scheduled[0]._cancelled:
                self._timer_cancelled_count -= 1
                handle = heapq.heappop(self._scheduled)
                handle._scheduled = False

    def _next_exact_when(self):
        best = None
        for h in self._scheduled:
            if not h._cancelled and getattr(h, '_sim_exact', False):
                if best is None or h._when < best:
                    best = h._when
        return best

    def _run_once(self):
        self.iterations += 1
        self._prune_cancelled()

        if not self._ready and not self._stopping:
            # quiescent: every task is blocked
            self.stats['quiescent_points'] += 1
            hook = self.quiescence_hook
            if hook is not None:
                hook()
                self._prune_cancelled()
            if not self._ready and not self._stopping:
                if not self._scheduled:
                    raise SimDeadlock("no runnable callback and no timer")
                head = self._scheduled[0]
                target = int(math.ceil(head._when * 1e9))
                if target > self._ns:
                    self.stats['jumps'] += 1
                    lat = 0
                    if self._latency_ns and not getattr(head, '_sim_exact', False):
                        lat = self._rng_lat.randrange(self._latency_ns + 1)
                        if lat:
                            nxt = self._next_exact_when()
                            if nxt is not None:
                                limit = int(math.ceil(nxt * 1e9))
                                if limit >= target:
                                    lat = min(lat, limit - target)
                        if lat:
                            self.stats['late_timer'] += 1
                    self._ns = target + lat

        # Zeno watchdog
        if self._ns - self._zeno_ns >= 1_000_000:
            self._zeno_ns = self._ns
            self._zeno_iters = 0
        else:
            self._zeno_iters += 1
            if self._zeno_iters > self.max_zeno_iters:
                raise SimLivelock(
                    f"{self._zeno_iters} loop iterations without 1 ms of virtual progress")

        # move due timers to the ready queue
        end_time = self.time() + 1e-9
        due = []
        while self._scheduled:
            handle = self._scheduled[0]
            if handle._when >= end_time:
                break
            handle = heapq.heappop(self._scheduled)
            handle._scheduled = False
            if not handle._cancelled:
                due.append(handle)
            else:
                self._timer_cancelled_count -= 1
        if due:
            due.sort(key=lambda h: (h._when, h._sim_seq))
            if self._tie_permute and len(due) > 1:
                i = 0
                while i < len(due):
                    j = i + 1
                    while j < len(due) and due[j]._when == due[i]._when:
                        j += 1
                    if j - i > 1:
                        self.stats['tie_groups'] += 1
                        group = due[i:j]
                        before = [h._sim_seq for h in group]
                        self._rng_tie.shuffle(group)
                        if before != [h._sim_seq for h in group]:
                            self.stats['tie_swapped'] += 1
                        due[i:j] = group
                    i = j
            self._ready.extend(due)

        ntodo = len(self._ready)
        for _ in range(ntodo):
            handle = self._ready.popleft()
            if handle._cancelled:
                continue
            self.steps += 1
            if self.steps > self.max_steps:
                raise SimStepCap(f"more than {self.max_steps} callbacks executed")
            handle._run()
            if self._cost_ns:
                self._ns += self._rng_cost.randrange(self._cost_ns + 1)
        handle = None

    # ---- helpers for the harness ----
    def run_for(self, seconds: float) -> None:
        """Run the (otherwise idle) loop for a virtual interval."""
        self.call_exact(self.time() + seconds, self.stop)
        self.run_forever()

    def pending_tasks(self):
        return [t for t in asyncio.all_tasks(self) if not t.done()]

    def shutdown_sim(self) -> None:
        """Cancel whatever is left and close the loop. Never raises."""
        try:
            for _ in range(5):
                tasks = self.pending_tasks()
                if not tasks:
                    break
                for t in tasks:
                    t.cancel()
                self.quiescence_hook = None
                self.max_steps = self.steps + 10_000
                try:
                    self.call_exact(self.time(), self.stop)
                    self.run_forever()
                except BaseException:
                    break
            for t in asyncio.all_tasks(self):
                # silence "exception was never retrieved"
                if t.done() and not t.cancelled():
                    t.exception()
        except BaseException:
            pass
        finally:
            try:
                self.close()
            except BaseException:
                pass
