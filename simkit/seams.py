"""
Seams: everything nondeterministic that edzed touches, taken over from outside /repo.

 - time.time()/time.sleep()/time.monotonic() of every edzed module  -> virtual clock
 - datetime.now() in edzed.blocklib.cron                          -> virtual wall clock
 - Block.__hash__ (set iteration order of blocks)                 -> salted, per run
 - logging of the 'edzed' and 'asyncio' loggers                   -> in-memory capture

install() is idempotent and process-wide; bind(loop, ...) switches the seams to a run.
"""

from __future__ import annotations

import datetime as _real_dt
import logging
import os
import sys
import time as _real_time
import types
import zlib

REPO = os.environ.get('VERIF_REPO', '/repo')

_EPOCH = _real_dt.datetime(1970, 1, 1)


class SimState:
    """The currently bound run."""
    loop = None
    wall_offset_ns = 0          # wall = loop_ns + wall_offset_ns
    tz_offset_us = 0            # local = wall + tz
    read_cost_ns = 1_000        # every wall clock read costs this much (Zeno rule)
    clock_gran_us = 1           # granularity of the wall clock as the code under test reads it
    sleep_floor_ns = 30_000     # blocking sleep overshoots by this much
    hash_salt = 0
    clock_reads = 0
    blocking_sleeps = 0
    log_records: list = []
    debug_all: bool = False     # run with the debug flag of the circuit and of every block on
    max_blocking_sleeps = 200_000


S = SimState


def wall_us() -> int:
    """Virtual wall clock, integer microseconds since the epoch. No side effects."""
    return (S.loop._ns + S.wall_offset_ns) // 1000


def wall_now() -> float:
    return wall_us() / 1e6


def read_us() -> int:
    """The wall clock as the code under test reads it: quantised to the clock's granularity."""
    us = wall_us()
    g = S.clock_gran_us
    return us - us % g if g > 1 else us


def _time():
    S.clock_reads += 1
    S.loop._ns += S.read_cost_ns
    return read_us() / 1e6


def _sleep(secs):
    if secs < 0:
        raise ValueError("sleep length must be non-negative")     # as the real time.sleep
    S.blocking_sleeps += 1
    if S.blocking_sleeps > S.max_blocking_sleeps:
        from .loop import SimLivelock
        raise SimLivelock("too many blocking sleeps")
    S.loop._ns += max(0, int(secs * 1e9)) + S.sleep_floor_ns


def _monotonic():
    return S.loop.time()


class _TimeShim(types.ModuleType):
    def __getattr__(self, name):
        return getattr(_real_time, name)


time_shim = _TimeShim('time')
time_shim.time = _time
time_shim.sleep = _sleep
time_shim.monotonic = _monotonic


class _DatetimeProxy:
    """Stands for the class datetime.datetime inside edzed.blocklib.cron."""

    @staticmethod
    def now(tz=None):
        S.clock_reads += 1
        S.loop._ns += S.read_cost_ns
        us = read_us()
        if tz is None:
            return _EPOCH + _real_dt.timedelta(microseconds=us + S.tz_offset_us)
        utc = _EPOCH + _real_dt.timedelta(microseconds=us)
        return (utc + tz.utcoffset(None)).replace(tzinfo=tz)

    def __getattr__(self, name):
        return getattr(_real_dt.datetime, name)

    def __call__(self, *args, **kwargs):
        return _real_dt.datetime(*args, **kwargs)

    def __instancecheck__(self, obj):
        return isinstance(obj, _real_dt.datetime)


class _DtShim(types.ModuleType):
    def __getattr__(self, name):
        return getattr(_real_dt, name)


dt_shim = _DtShim('datetime')
dt_shim.datetime = _DatetimeProxy()


def local_now() -> _real_dt.datetime:
    """Virtual local date-time without side effects (for oracles)."""
    return _EPOCH + _real_dt.timedelta(microseconds=wall_us() + S.tz_offset_us)


def utc_now() -> _real_dt.datetime:
    return _EPOCH + _real_dt.timedelta(microseconds=wall_us())


class _Capture(logging.Handler):
    def emit(self, record):
        try:
            msg = record.getMessage()
        except Exception:   # pylint: disable=broad-except
            msg = str(record.msg)
        S.log_records.append((record.levelno, msg))


_installed = False
edzed = None


def _block_hash(self):
    return zlib.crc32(f"{S.hash_salt}:{self.name}".encode()) & 0x7fffffff


def install():
    """Import edzed from the repository under test and attach all seams."""
    global _installed, edzed     # pylint: disable=global-statement
    if _installed:
        return edzed
    if sys.path[0] != REPO:
        sys.path.insert(0, REPO)
    import edzed as _edzed      # pylint: disable=import-outside-toplevel
    import edzed.blocklib.cron  # noqa  pylint: disable=import-outside-toplevel
    import edzed.utils.looptimes  # noqa
    edzed_file = os.path.realpath(_edzed.__file__)
    if not edzed_file.startswith(os.path.realpath(REPO) + os.sep):
        raise RuntimeError(f"edzed imported from {edzed_file}, expected under {REPO}")
    edzed = _edzed
    patched = []
    for name, mod in list(sys.modules.items()):
        if mod is None or not (name == 'edzed' or name.startswith('edzed.')):
            continue
        if getattr(mod, 'time', None) is _real_time:
            mod.time = time_shim
            patched.append(name + '.time')
        if getattr(mod, 'dt', None) is _real_dt and name == 'edzed.blocklib.cron':
            mod.dt = dt_shim
            patched.append(name + '.dt')
    need = {'edzed.simulator.time', 'edzed.addons.time', 'edzed.fsm.time',
            'edzed.utils.looptimes.time', 'edzed.blocklib.cron.time', 'edzed.blocklib.cron.dt'}
    missing = need - set(patched)
    if missing:
        raise RuntimeError(f"seams not attached: {sorted(missing)}")
    _edzed.block.Block.__hash__ = _block_hash
    # debug seam: the documented debug flags (Block(debug=True), blk.debug, Circuit.set_debug)
    # are an environment dimension of every property; when the run asks for it every block and
    # the circuit itself are created with the flag on and the messages are really formatted
    _orig_addblock = _edzed.simulator.Circuit.addblock
    _orig_cinit = _edzed.simulator.Circuit.__init__

    def _addblock(self, blk):
        if S.debug_all:
            blk.debug = True
        return _orig_addblock(self, blk)

    def _cinit(self, *args, **kwargs):
        _orig_cinit(self, *args, **kwargs)
        if S.debug_all:
            self.debug = True
    _edzed.simulator.Circuit.addblock = _addblock
    _edzed.simulator.Circuit.__init__ = _cinit
    for lname in ('edzed', 'asyncio'):
        logger = logging.getLogger(lname)
        logger.handlers[:] = [_Capture()]
        logger.propagate = False
        logger.setLevel(logging.INFO if lname == 'edzed' else logging.ERROR)
    import warnings
    warnings.simplefilter('ignore')
    _installed = True
    return edzed


def bind(loop, *, wall_start_us: int = 1_700_000_000_000_000, tz_offset_s: int = 0,
         hash_salt: int = 0, read_cost_ns: int = 1_000, clock_gran_us: int = 1,
         debug: bool = False):
    """Attach the seams to a new run."""
    install()
    S.debug_all = bool(debug)
    logging.getLogger('edzed').setLevel(logging.DEBUG if debug else logging.INFO)
    edzed.reset_circuit()
    S.loop = loop
    S.wall_offset_ns = wall_start_us * 1000 - loop._ns
    S.tz_offset_us = tz_offset_s * 1_000_000
    S.hash_salt = hash_salt
    S.read_cost_ns = read_cost_ns
    S.clock_gran_us = max(1, int(clock_gran_us))
    S.clock_reads = 0
    S.blocking_sleeps = 0
    S.log_records = []


class free_reads:
    """Context manager: clock reads made by oracles cost nothing."""

    def __enter__(self):
        self._saved = (S.read_cost_ns, S.clock_reads)
        S.read_cost_ns = 0

    def __exit__(self, *exc):
        S.read_cost_ns, S.clock_reads = self._saved
        return False


def jump_wall(delta_s: float):
    """Injected system clock jump."""
    S.wall_offset_ns += int(delta_s * 1e9)


def jump_tz(delta_s: int):
    """DST style change of the local time offset."""
    S.tz_offset_us += delta_s * 1_000_000
