"""
Batch driver: fan seeds out over worker processes, collect coverage, handle
violations (confirm in a fresh interpreter, minimise, write replay), known
findings and the evidence file.
"""

from __future__ import annotations

import collections
import concurrent.futures as cf
import faulthandler
import hashlib
import importlib
import json
import multiprocessing
import os
import random
import subprocess
import sys
import time
import zlib

VERIF = os.path.dirname(os.path.dirname(os.path.abspath(__file__)))
CHECK = os.path.join(VERIF, 'check')
# both can be redirected so that runs against mutated copies of the repository
# (VERIF_REPO=...) never overwrite the evidence of the real tree
EVIDENCE_DIR = os.environ.get('VERIF_EVIDENCE_DIR') or os.path.join(VERIF, 'evidence')
REPLAY_DIR = os.environ.get('VERIF_REPLAY_DIR') or os.path.join(VERIF, 'replays')
KNOWN_FILE = os.path.join(VERIF, 'known_findings.json')

REAL_COMPONENTS = [
    "edzed/** from the working tree of /repo (simulator, block, fsm, addons, blocklib, utils): "
    "unmodified real code",
    "asyncio tasks, futures, queues, events, wait/wait_for/timeouts, shield, gather (CPython 3.12)",
]
STUBBED_COMPONENTS = [
    "selector/epoll and the monotonic clock: replaced by simkit.loop.VirtualLoop "
    "(discrete-event scheduler, integer-ns clock)",
    "time.time/time.sleep in edzed modules and datetime.now in edzed.blocklib.cron: "
    "virtual wall clock",
    "OS signal delivery: the SIGTERM handler installed by edzed.run() is called directly",
    "persistent storage backend: simkit.storage.SimStorage (journaling MutableMapping)",
    "all user supplied callables (coroutines, functions, validators, filters, FSM callbacks): "
    "scripted probes",
    "address based hash of Block objects: salted hash (set iteration order is part of the plan)",
]


def load_check(prop: str):
    return importlib.import_module(f"checks.{prop.lower()}")


def seed_for(prop: str, base_seed: int, i: int) -> int:
    return ((base_seed & 0xffffffff) << 32 | (i & 0xffffffff)) ^ zlib.crc32(prop.encode())


def make_plan(mod, prop, base_seed, i, tier):
    seed = seed_for(prop, base_seed, i)
    plan = mod.gen(random.Random(seed), tier, i)
    plan['seed'] = seed
    plan['index'] = i
    return plan


def safe_execute(mod, plan, trace=False):
    """Execute; map exceptions of the harness itself to a harness error."""
    from .runner import PlanError   # pylint: disable=import-outside-toplevel
    try:
        return mod.execute(plan, trace=trace)
    except PlanError as err:
        return {'violations': [], 'harness_error': f"PLAN: {err}", 'digest': '', 'stats': {},
                'behaviour': None, 'steps': 0, 'sim_seconds': 0.0, 'plan_error': True}
    except Exception as err:   # pylint: disable=broad-except
        import traceback    # pylint: disable=import-outside-toplevel
        return {'violations': [], 'harness_error': f"HARNESS-EXC: {type(err).__name__}: {err}\n"
                + traceback.format_exc(limit=8), 'digest': '', 'stats': {}, 'behaviour': None,
                'steps': 0, 'sim_seconds': 0.0}


def _chunk_worker(prop, base_seed, tier, start, stop, chunk_timeout):
    faulthandler.enable()
    faulthandler.dump_traceback_later(chunk_timeout, exit=True)
    try:
        mod = load_check(prop)
        out = {
            'n': 0, 'steps': 0, 'sim_seconds': 0.0, 'stats': collections.Counter(),
            'behaviours': set(), 'violations': [], 'harness': [], 'samples': [],
            'trivial': 0,
        }
        seen_sigs = collections.Counter()
        for i in range(start, stop):
            plan = make_plan(mod, prop, base_seed, i, tier)
            res = safe_execute(mod, plan)
            out['n'] += 1
            out['steps'] += res.get('steps', 0)
            out['sim_seconds'] += res.get('sim_seconds', 0.0)
            out['stats'].update(res.get('stats', {}))
            if res.get('behaviour'):
                out['behaviours'].add(res['behaviour'])
            else:
                out['trivial'] += 1
            if res.get('harness_error'):
                if len(out['harness']) < 3:
                    out['harness'].append({'i': i, 'seed': plan['seed'],
                                           'error': res['harness_error'], 'plan': plan})
            for sig, msg in res.get('violations', []):
                seen_sigs[sig] += 1
                if seen_sigs[sig] <= 2:
                    out['violations'].append(
                        {'i': i, 'seed': plan['seed'], 'sig': sig, 'msg': msg, 'plan': plan,
                         'digest': res['digest']})
            if i - start < 1 and start % 7 == 0 and len(out['samples']) < 1:
                out['samples'].append(plan)
        out['sig_counts'] = dict(seen_sigs)
        out['stats'] = dict(out['stats'])
        out['behaviours'] = list(out['behaviours'])
        return out
    finally:
        faulthandler.cancel_dump_traceback_later()


def run_subprocess_json(args, timeout):
    env = dict(os.environ)
    env['PYTHONHASHSEED'] = env.get('VERIF_CONFIRM_HASHSEED', '1')
    try:
        proc = subprocess.run(
            [sys.executable, CHECK, *args], capture_output=True, text=True, timeout=timeout,
            env=env, check=False)
    except subprocess.TimeoutExpired:
        return None
    for line in reversed(proc.stdout.splitlines()):
        if line.startswith('JSON:'):
            try:
                return json.loads(line[5:])
            except ValueError:
                return None
    return None


def repo_tree_digest() -> str:
    from . import seams     # pylint: disable=import-outside-toplevel
    h = hashlib.sha256()
    root = os.path.join(seams.REPO, 'edzed')
    for dirpath, dirnames, filenames in os.walk(root):
        dirnames.sort()
        for fn in sorted(filenames):
            if fn.endswith('.py'):
                path = os.path.join(dirpath, fn)
                h.update(path[len(root):].encode())
                with open(path, 'rb') as f:
                    h.update(f.read())
    return h.hexdigest()[:16]


def load_known(prop):
    try:
        with open(KNOWN_FILE, encoding='utf-8') as f:
            entries = json.load(f)
    except FileNotFoundError:
        return []
    return [e for e in entries if e.get('property') == prop]


def write_replay(prop, viol, plan, res, minimised):
    os.makedirs(REPLAY_DIR, exist_ok=True)
    sigslug = ''.join(c if c.isalnum() else '-' for c in viol['sig'])[:60]
    name = f"{prop}-{sigslug}-{res['digest'][:12]}.json"
    path = os.path.join(REPLAY_DIR, name)
    trace = res.get('trace') or []
    doc = {
        'property': prop, 'signature': viol['sig'], 'message': viol['msg'],
        'seed': viol['seed'], 'minimised': minimised, 'plan': plan, 'digest': res['digest'],
        'repo_tree_digest': repo_tree_digest(),
        'trace': trace[:600],
    }
    with open(path, 'w', encoding='utf-8') as f:
        json.dump(doc, f, indent=1, sort_keys=True, default=str)
    return path


def handle_violation(prop, mod, viol, log):
    """Confirm in a fresh interpreter, minimise, write replay. Return (path|None, verdict)."""
    os.makedirs(REPLAY_DIR, exist_ok=True)
    tmp_in = os.path.join(REPLAY_DIR, f".tmp-{os.getpid()}-in.json")
    tmp_out = os.path.join(REPLAY_DIR, f".tmp-{os.getpid()}-out.json")
    with open(tmp_in, 'w', encoding='utf-8') as f:
        json.dump({'plan': viol['plan'], 'signature': viol['sig']}, f)
    try:
        res = run_subprocess_json([prop, '--exec-plan', tmp_in], timeout=120)
        if res is None:
            return None, "HARNESS: fresh-interpreter re-run failed"
        sigs = [v[0] for v in res.get('violations', [])]
        if viol['sig'] not in sigs or res.get('digest') != viol['digest']:
            return None, (f"HARNESS: nondeterministic: batch sig={viol['sig']} "
                          f"digest={viol['digest'][:12]} fresh sigs={sigs} "
                          f"digest={str(res.get('digest'))[:12]}")
        plan = viol['plan']
        minimised = False
        if os.environ.get('VERIF_NO_SHRINK') != '1':
            mres = run_subprocess_json([prop, '--minimise', tmp_in, tmp_out], timeout=150)
            if mres and mres.get('ok'):
                try:
                    with open(tmp_out, encoding='utf-8') as f:
                        plan = json.load(f)['plan']
                    minimised = True
                except (OSError, ValueError):
                    pass
        full = safe_execute(mod, plan, trace=True)
        sigs = [v[0] for v in full.get('violations', [])]
        if viol['sig'] not in sigs:
            # minimised plan does not reproduce in this process: fall back
            plan = viol['plan']
            minimised = False
            full = safe_execute(mod, plan, trace=True)
        for sig, msg in full.get('violations', []):
            if sig == viol['sig']:
                viol = dict(viol, msg=msg)
                break
        path = write_replay(prop, viol, plan, full, minimised)
        return path, 'VIOLATION'
    finally:
        for p in (tmp_in, tmp_out):
            try:
                os.unlink(p)
            except OSError:
                pass


def run_batch(prop: str, tier: str) -> int:
    t_start = time.time()
    mod = load_check(prop)
    base_seed = int(os.environ.get('VERIF_SEED', '0') or 0)
    jobs = int(os.environ.get('VERIF_JOBS', '0') or 0) or min(16, os.cpu_count() or 1)
    total = int(os.environ.get('VERIF_RUNS', '0') or 0) or mod.RUNS[tier]
    default_budget = {'quick': 150, 'thorough': 3000}[tier]
    budget = float(os.environ.get('VERIF_BUDGET_S', '0') or 0) or default_budget
    chunk = max(1, min(getattr(mod, 'CHUNK', 200), (total + jobs - 1) // jobs))
    chunk_timeout = int(getattr(mod, 'CHUNK_TIMEOUT', 300))
    print(f"# {prop} tier={tier} VERIF_SEED={base_seed} runs={total} jobs={jobs} "
          f"chunk={chunk} repo_tree={repo_tree_digest()}", flush=True)

    agg = {'n': 0, 'steps': 0, 'sim_seconds': 0.0, 'stats': collections.Counter(),
           'behaviours': set(), 'violations': [], 'harness': [], 'samples': [],
           'sig_counts': collections.Counter(), 'trivial': 0}
    exit_code = 0
    budget_hit = False
    ctx = multiprocessing.get_context('fork')
    ranges = [(s, min(s + chunk, total)) for s in range(0, total, chunk)]
    try:
        with cf.ProcessPoolExecutor(max_workers=jobs, mp_context=ctx) as pool:
            pending = set()
            it = iter(ranges)
            def submit_more():
                nonlocal budget_hit
                while len(pending) < jobs * 2:
                    if time.time() - t_start > budget:
                        budget_hit = True
                        return
                    try:
                        s, e = next(it)
                    except StopIteration:
                        return
                    pending.add(pool.submit(
                        _chunk_worker, prop, base_seed, tier, s, e, chunk_timeout))
            submit_more()
            while pending:
                done, _ = cf.wait(pending, return_when=cf.FIRST_COMPLETED)
                for fut in done:
                    pending.discard(fut)
                    out = fut.result()
                    agg['n'] += out['n']
                    agg['steps'] += out['steps']
                    agg['sim_seconds'] += out['sim_seconds']
                    agg['stats'].update(out['stats'])
                    agg['behaviours'].update(out['behaviours'])
                    agg['trivial'] += out['trivial']
                    agg['sig_counts'].update(out['sig_counts'])
                    agg['violations'].extend(out['violations'])
                    agg['harness'].extend(out['harness'])
                    if len(agg['samples']) < 4:
                        agg['samples'].extend(out['samples'])
                submit_more()
    except cf.process.BrokenProcessPool as err:
        print(f"HARNESS: worker process died (hang or crash): {err}", flush=True)
        exit_code = 2

    # ---- harness errors ----
    if agg['harness']:
        exit_code = 2
        for h in agg['harness'][:3]:
            print(f"HARNESS: property={prop} run={h['i']} seed={h['seed']}: "
                  f"{h['error'].splitlines()[0]}", flush=True)
            if 'HARNESS-EXC' in h['error']:
                print(h['error'], flush=True)
        os.makedirs(REPLAY_DIR, exist_ok=True)
        hpath = os.path.join(REPLAY_DIR, f"{prop}-harness-error.json")
        with open(hpath, 'w', encoding='utf-8') as f:
            json.dump(agg['harness'][0], f, indent=1, default=str)
        print(f"HARNESS: first failing plan written to {hpath}", flush=True)

    # ---- known findings ----
    known = load_known(prop)
    known_sigs = {}
    reproduced = []
    for entry in known:
        if entry.get('status') != 'known':
            continue
        known_sigs[entry['signature']] = entry
        rp = entry.get('replay')
        ok = False
        if rp:
            try:
                with open(os.path.join(VERIF, rp), encoding='utf-8') as f:
                    kplan = json.load(f)['plan']
                kres = safe_execute(mod, kplan)
                ok = entry['signature'] in [v[0] for v in kres.get('violations', [])]
            except (OSError, ValueError, KeyError):
                ok = False
        if ok:
            reproduced.append(entry['signature'])
            print(f"KNOWN-FINDING: property={prop} {entry['what']} "
                  f"[signature={entry['signature']} replay={rp}; "
                  f"{agg['sig_counts'].get(entry['signature'], 0)} random runs hit it too]",
                  flush=True)
        else:
            print(f"# note: known finding {entry['signature']} did not reproduce from {rp} "
                  "(repaired?); it suppresses nothing in this run", flush=True)
            known_sigs.pop(entry['signature'], None)

    # ---- violations ----
    by_sig = collections.OrderedDict()
    for v in sorted(agg['violations'], key=lambda v: v['i']):
        by_sig.setdefault(v['sig'], v)
    n_viol = 0
    for sig, viol in by_sig.items():
        if sig in known_sigs:
            continue
        if n_viol >= 6:
            print(f"# further violation signature not processed: {sig}", flush=True)
            n_viol += 1
            continue
        path, verdict = handle_violation(prop, mod, viol, print)
        if path is None:
            print(f"{verdict} (property={prop} run={viol['i']} seed={viol['seed']})", flush=True)
            exit_code = 2
            continue
        n_viol += 1
        print(f"VIOLATION property={prop} replay={path}", flush=True)
        print(f"#   signature={sig} count={agg['sig_counts'][sig]} first_run={viol['i']} "
              f"seed={viol['seed']}\n#   {viol['msg']}", flush=True)
    if n_viol:
        exit_code = 1 if exit_code == 0 else exit_code
        if exit_code == 2 and n_viol:
            exit_code = 1

    # ---- evidence ----
    wall = time.time() - t_start
    runs_per_hour = int(agg['n'] / wall * 3600) if wall > 0 else 0
    stats = dict(agg['stats'])
    faults = {k[6:]: v for k, v in stats.items() if k.startswith('fault:')}
    faults.update({k: stats[k] for k in ('late_timer', 'tie_swapped') if k in stats})
    reach = {k[6:]: v for k, v in stats.items() if k.startswith('reach:')}
    other = {k: v for k, v in stats.items()
             if not k.startswith(('fault:', 'reach:')) and k not in ('late_timer', 'tie_swapped')}
    samples = agg['samples'][:3] or [make_plan(mod, prop, base_seed, 0, tier)]
    evidence = {
        'property_id': prop,
        'tier': tier,
        'seed': base_seed,
        'level': mod.LEVEL,
        'wall_s': round(wall, 2),
        'violations': n_viol,
        'coverage': {
            'evaluations': agg['n'],
            'distinct_nontrivial': len(agg['behaviours']),
            'rule': mod.RULE,
            'samples': samples,
            'runs_planned': total,
            'budget_hit': budget_hit,
            'trivial_runs': agg['trivial'],
            'runs_per_hour': runs_per_hour,
            'seeds': f"VERIF_SEED={base_seed}, run index 0..{agg['n'] - 1} "
                     f"(seed_i = (VERIF_SEED<<32|i) xor crc32('{prop}'))",
            'simulated_seconds': round(agg['sim_seconds'], 3),
            'steps': agg['steps'],
            'faults_fired': faults,
            'reach': reach,
            'counters': other,
            'violation_signatures': dict(agg['sig_counts']),
            'known_findings_reproduced': reproduced,
            'real_components': REAL_COMPONENTS + list(getattr(mod, 'REAL_EXTRA', [])),
            'stubbed_components': STUBBED_COMPONENTS + list(getattr(mod, 'STUB_EXTRA', [])),
            'harness_errors': len(agg['harness']),
            'repo_tree_digest': repo_tree_digest(),
        },
        'assumptions': list(getattr(mod, 'ASSUMPTIONS', [])) + [
            "the virtual loop models asyncio faithfully: FIFO ready queue, timers never early, "
            "arbitrary order of equal deadlines, bounded wake-up latency",
            "sampling, not enumeration: a clean batch is evidence, not proof",
        ],
    }
    os.makedirs(EVIDENCE_DIR, exist_ok=True)
    with open(os.path.join(EVIDENCE_DIR, f"{prop}.json"), 'w', encoding='utf-8') as f:
        json.dump(evidence, f, indent=1, sort_keys=True, default=str)
    print(f"# {prop}: {agg['n']} runs in {wall:.1f}s ({runs_per_hour}/h), "
          f"{len(agg['behaviours'])} distinct behaviours, {agg['sim_seconds']:.0f} simulated s, "
          f"violations={n_viol}, harness_errors={len(agg['harness'])}, exit={exit_code}",
          flush=True)
    if faults:
        print(f"#   faults fired: {faults}", flush=True)
    if reach:
        print(f"#   reach: {reach}", flush=True)
    zero = [k for k in getattr(mod, 'REACH_EXPECTED', []) if not reach.get(k)]
    if zero:
        print(f"#   WARNING reach probes at zero: {zero}", flush=True)
    return exit_code
