"""
Self tests of the machinery: smoke (setup_cmd) and determinism.
"""

from __future__ import annotations

import glob
import json
import os
import subprocess
import sys
import time

from . import batch, seams

VERIF = batch.VERIF


def all_props():
    props = []
    for path in sorted(glob.glob(os.path.join(VERIF, 'checks', 'c[0-9][0-9].py'))):
        props.append(os.path.basename(path)[:-3].upper())
    return props


def smoke() -> int:
    """Import edzed from the repo, attach the seams, run a few seeds of every check."""
    edzed = seams.install()
    print(f"# edzed {edzed.__version__} from {os.path.dirname(edzed.__file__)}; "
          f"tree digest {batch.repo_tree_digest()}")
    rc = 0
    for prop in all_props():
        mod = batch.load_check(prop)
        n_h = 0
        for i in range(5):
            plan = batch.make_plan(mod, prop, 0, i, 'quick')
            res = batch.safe_execute(mod, plan)
            if res.get('harness_error'):
                n_h += 1
                print(f"HARNESS: {prop} run {i}: {res['harness_error'].splitlines()[0]}")
        print(f"# smoke {prop}: 5 runs, harness errors {n_h}")
        if n_h:
            rc = 2
    return rc


def _digests(prop, lo, hi, hashseed):
    env = dict(os.environ)
    env['PYTHONHASHSEED'] = str(hashseed)
    proc = subprocess.run(
        [sys.executable, batch.CHECK, 'selftest-determinism', '--emit', prop, str(lo), str(hi)],
        capture_output=True, text=True, env=env, timeout=1200, check=False)
    for line in proc.stdout.splitlines():
        if line.startswith('JSON:'):
            return json.loads(line[5:])
    raise RuntimeError(f"digest subprocess failed: {proc.stdout[-500:]} {proc.stderr[-2000:]}")


def determinism(argv) -> int:
    """
    Every plan executed (a) twice in one process, in different order, (b) in fresh
    interpreters under PYTHONHASHSEED 0, 1 and 4242; all trace digests must agree.
    """
    if argv and argv[0] == '--emit':
        prop, lo, hi = argv[1], int(argv[2]), int(argv[3])
        mod = batch.load_check(prop)
        out = {}

        def index_of(i):
            # odd positions are mapped far beyond the systematic prefix that many generators
            # walk for their first run indices, so that the random strata are compared too
            return i // 2 if i % 2 == 0 else 1_000_003 + 7 * i

        _make_plan = batch.make_plan

        class _B:    # local shim: same call signature, remapped index
            @staticmethod
            def make_plan(mod_, prop_, seed_, i_, tier_):
                return _make_plan(mod_, prop_, seed_, index_of(i_), tier_)
        for i in range(lo, hi):
            plan = _B.make_plan(mod, prop, 0, i, 'quick')
            res = batch.safe_execute(mod, plan)
            out[str(i)] = [res['digest'], sorted(v[0] for v in res['violations']),
                           (res.get('harness_error') or '')[:80]]
        # second pass, reverse order, same process
        for i in reversed(range(lo, hi)):
            plan = _B.make_plan(mod, prop, 0, i, 'quick')
            res = batch.safe_execute(mod, plan)
            again = [res['digest'], sorted(v[0] for v in res['violations']),
                     (res.get('harness_error') or '')[:80]]
            if again != out[str(i)]:
                out[str(i)] = ['DIVERGED-IN-PROCESS', out[str(i)], again]
        print('JSON:' + json.dumps(out))
        return 0
    props = [a.upper() for a in argv if not a.startswith('-')] or all_props()
    n = int(os.environ.get('VERIF_DET_RUNS', '300'))
    rc = 0
    t0 = time.time()
    import concurrent.futures as cf
    for prop in props:
        jobs = []
        with cf.ThreadPoolExecutor(max_workers=12) as pool:
            step = max(1, n // 4)
            for hs in (0, 1, 4242):
                for lo in range(0, n, step):
                    jobs.append((hs, lo, pool.submit(_digests, prop, lo, min(n, lo + step), hs)))
            results = {}
            for hs, lo, fut in jobs:
                results.setdefault(hs, {}).update(fut.result())
        bad = []
        for i in range(n):
            vals = [json.dumps(results[hs][str(i)]) for hs in (0, 1, 4242)]
            if len(set(vals)) != 1 or 'DIVERGED' in vals[0]:
                bad.append((i, vals))
        print(f"# determinism {prop}: {n} plans x (2 in-process + 3 interpreters/hash seeds): "
              f"{len(bad)} divergent")
        for i, vals in bad[:5]:
            print(f"HARNESS: nondeterministic {prop} run {i}: {vals}")
        if bad:
            rc = 2
    print(f"# determinism self-test took {time.time() - t0:.1f}s")
    return rc
