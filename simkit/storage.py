"""
Simulated persistent storage: a MutableMapping that behaves like a shelf.

 - values are deep-copied on write and on read (nothing is shared with the circuit),
 - every write/delete is journaled with the virtual time,
 - snapshot(k) returns the content as it was after journal entry k ("crash point"),
 - write / read errors can be injected.
"""

from __future__ import annotations

import copy
from collections.abc import MutableMapping


class StorageError(OSError):
    pass


class SimStorage(MutableMapping):

    def __init__(self, initial=None, clock=None):
        self._data = copy.deepcopy(dict(initial or {}))
        self._initial = copy.deepcopy(self._data)
        self.journal = []          # (op, key, value|None, t)
        self._clock = clock or (lambda: 0)
        self.fail_writes = {}      # key -> number of upcoming writes to fail (or '*')
        self.fail_reads = set()    # keys whose read fails
        self.write_errors = 0
        self.read_errors = 0

    def __getitem__(self, key):
        if key in self.fail_reads or '*' in self.fail_reads:
            if key in self._data:
                self.read_errors += 1
                raise StorageError(f"injected read error: {key}")
        return copy.deepcopy(self._data[key])

    def __setitem__(self, key, value):
        for k in (key, '*'):
            n = self.fail_writes.get(k, 0)
            if n:
                self.fail_writes[k] = n - 1
                self.write_errors += 1
                raise StorageError(f"injected write error: {key}")
        value = copy.deepcopy(value)
        self._data[key] = value
        self.journal.append(('set', key, value, self._clock()))

    def __delitem__(self, key):
        del self._data[key]
        self.journal.append(('del', key, None, self._clock()))

    def __iter__(self):
        return iter(list(self._data))

    def __len__(self):
        return len(self._data)

    def content(self) -> dict:
        return copy.deepcopy(self._data)

    def snapshot(self, k: int) -> dict:
        """Content after the first k journal entries."""
        data = copy.deepcopy(self._initial)
        for op, key, value, _t in self.journal[:k]:
            if op == 'set':
                data[key] = copy.deepcopy(value)
            else:
                data.pop(key, None)
        return data
