"""
Monitor for the start-up (initialisation) protocol of sequential blocks, written from
docs/blocks.rst "Initialization rules", docs/new_sblocks.rst "SBlock initialization" /
"init_async", docs/simulation.rst and the statement of property C05 - not from
edzed/simulator.py.  No edzed import: the monitor only sees the call log recorded by
the probe blocks of checks/c05.py.

Documented protocol, per block (sources that the block does not define are skipped):

  1. saved persistent state      (only when state was saved)
  2. asynchronous routine        (only if the block is still uninitialised, only with a
                                  positive init_timeout; waited for init_timeout seconds,
                                  possibly longer when another block has a longer
                                  init_timeout, never longer than the largest one)
  3. regular routine
  4. initdef value               (only if still uninitialised)
  5. an event from another block's initialisation; an event that arrives before the
     synchronous steps (1, 3, 4) were done makes them run first

Every routine runs at most once per block.  Where asyncio leaves a choice (a routine
finishing near its time-out, or between its own and the largest time-out) the monitor
accepts both outcomes and continues from the observed one.

Log entries are dicts: i (index), s (loop callback number), t (virtual ns), k (kind),
b (block), err (an error was already registered by the simulator), and per kind
  'rb'   routine begins:  r in restore/async/regular/ifv, forced (an event delivery to this
                          block is in progress), init (initialised before)
  're'   routine ends:    r, out in ok/exc/cancel/cancel-term, init (initialised after)
  'ep'   event delivery to b begins (et, src);  'eo' it ends (out ok/exc, init)
  'h'    the event handler of probe b is entered: et, src, nest (own init routines on the
         stack), init
  'set'  a library block's set_output() returned (init True)

specs[name]: persist_avail, has_async, T, has_ifv, initdef, lib (library block: only the
async rules apply), sentinel (the marker probe: always restored from saved state by the
simulator itself; its first routine call marks the callback of the first synchronous pass).
"""

from __future__ import annotations

import collections


def _forced_before(rb_regular, cut):
    return rb_regular is not None and rb_regular['forced'] and rb_regular['i'] < cut


def analyse(log, specs, *, slack_early_ns, slack_late_ns):
    """Return (violations [(clause, message)], facts Counter, info dict)."""
    viol = []
    facts = collections.Counter()
    begins = {}
    ends = {}
    order = collections.defaultdict(list)

    def bad(clause, msg):
        if len(viol) < 12:
            viol.append((clause, msg))

    # ---- every routine at most once per block
    for e in log:
        if e['k'] == 'rb':
            key = (e['b'], e['r'])
            if key in begins:
                bad(f"routine-twice/{e['r']}",
                    f"{e['b']}: {e['r']} routine called a second time "
                    f"(first at #{begins[key]['i']}, again at #{e['i']})")
            else:
                begins[key] = e
            order[e['b']].append(e)
        elif e['k'] == 're':
            ends.setdefault((e['b'], e['r']), e)
            order[e['b']].append(e)

    # ---- landmarks: callback of the first synchronous pass (s1), start of the second (i2)
    sentinel = next((n for n, sp in specs.items() if sp.get('sentinel')), None)
    s1 = None
    if sentinel is not None:
        e = begins.get((sentinel, 'restore'))
        if e is not None and not e['forced']:
            s1 = e['s']
    i2 = None
    for e in log:
        if e['k'] == 'rb' and e['r'] == 'regular' and not e['forced'] and e['b'] in specs \
                and not specs[e['b']].get('lib'):
            i2 = e['i']
            break
    cut = None
    if s1 is not None:
        cut = len(log)
        for e in log:
            if e['s'] > s1 or e['i'] == i2:
                cut = e['i']
                break
    init_at_cut = {}
    err_at_cut = False
    if cut is not None:
        for e in log:
            if e['i'] >= cut:
                break
            if e.get('err'):
                err_at_cut = True
            if e['k'] in ('re', 'eo', 'set') and 'init' in e:
                init_at_cut[e['b']] = bool(e['init'])
    # an error registered before the second synchronous pass cancels the asynchronous
    # routines, possibly before they were given a chance to begin
    err_before_i2 = i2 is None or any(e.get('err') for e in log[:i2])
    info = {'s1': s1, 'i2': i2, 'cut': cut}

    # ---- per block rules
    for name, sp in specs.items():
        seq = order.get(name, [])
        lib = bool(sp.get('lib'))
        # 1. saved state: used iff available, and first
        if not lib:
            began = (name, 'restore') in begins
            if sp['persist_avail'] and not began and s1 is not None:
                # (s1 unknown: the simulation was aborted before the first synchronous pass,
                # e.g. by a ValuePoll that delivered its first value to a failing block)
                bad('restore-not-used', f"{name}: saved persistent state exists but the block was "
                    "not initialised from it")
            if began and not sp['persist_avail']:
                bad('restore-without-data', f"{name}: _restore_state called without saved state")
            if began and seq and not (seq[0]['k'] == 'rb' and seq[0]['r'] == 'restore'):
                bad('order/restore-not-first',
                    f"{name}: {seq[0]['r']} routine ran before the saved state was restored")
            if began:
                facts['restore_used'] += 1
        # 2. asynchronous routine
        ab = begins.get((name, 'async'))
        if ab is not None:
            if not sp['has_async'] or not sp['T'] > 0:
                bad('async-with-nonpositive-timeout',
                    f"{name}: init_async started although init_timeout is {sp['T']}")
            elif cut is not None and init_at_cut.get(name, False):
                bad('async-although-initialized',
                    f"{name}: init_async started although the block was already initialised "
                    "when the asynchronous phase began")
            if cut is not None and ab['i'] < cut and not ab['forced']:
                pass    # (cannot happen: a task begins in a later callback)
            rb_reg = begins.get((name, 'regular'))
            if rb_reg is not None and not rb_reg['forced'] and rb_reg['i'] < ab['i']:
                bad('order/async-after-regular',
                    f"{name}: init_async started after the simulator had run init_regular")
        elif sp['has_async']:
            if not sp['T'] > 0:
                facts['async_skipped_nonpositive_timeout'] += 1
            elif cut is not None and init_at_cut.get(name, False):
                facts['async_skipped_initialized'] += 1
            elif (cut is not None and not err_at_cut and not err_before_i2
                  and not _forced_before(begins.get((name, 'regular')), cut)):
                # (docs/blocks.rst: the asynchronous step "is skipped if an incoming event is
                # pending" - a block whose synchronous steps were forced by an event during the
                # first pass may legitimately go without its init_async)
                bad('async-not-started',
                    f"{name}: uninitialised after the first synchronous step, init_async defined, "
                    f"init_timeout {sp['T']} > 0, but init_async was never started")
        if lib:
            continue
        # 3. regular routine: after the own asynchronous routine unless an event forced it
        rb_reg = begins.get((name, 'regular'))
        if rb_reg is not None and not rb_reg['forced'] and ab is not None:
            ae = ends.get((name, 'async'))
            if ae is None or ae['i'] > rb_reg['i']:
                bad('order/regular-before-async-finished',
                    f"{name}: the simulator ran init_regular while the block's init_async was "
                    "still running")
        if rb_reg is not None and rb_reg['forced']:
            facts['sync_steps_forced_by_event'] += 1
        # 4. initdef
        for pos, e in enumerate(seq):
            if e['k'] == 'rb' and e['r'] == 'ifv':
                prev = seq[pos - 1] if pos else None
                if not sp['has_ifv'] or not sp['initdef']:
                    bad('initdef-without-value', f"{name}: init_from_value called without initdef")
                elif prev is None or not (prev['k'] == 're' and prev['r'] == 'regular'):
                    bad('order/initdef-not-after-regular',
                        f"{name}: init_from_value not called directly after init_regular "
                        f"(previous routine record: {prev and (prev['k'], prev['r'])})")
                elif prev['init']:
                    bad('initdef-although-initialized',
                        f"{name}: init_from_value(initdef) called although the block was "
                        "initialised after init_regular")
                else:
                    facts['initdef_used'] += 1
            if e['k'] == 're' and e['r'] == 'regular' and e['out'] == 'ok':
                nxt = seq[pos + 1] if pos + 1 < len(seq) else None
                want = sp['has_ifv'] and sp['initdef'] and not e['init']
                if want and not (nxt is not None and nxt['k'] == 'rb' and nxt['r'] == 'ifv'):
                    bad('initdef-not-used',
                        f"{name}: still uninitialised after init_regular, initdef given, but "
                        "init_from_value was not called")
                if sp['has_ifv'] and sp['initdef'] and e['init']:
                    facts['initdef_skipped_initialized'] += 1

    # ---- timing of the asynchronous phase
    abegins = [e for (n, r), e in begins.items() if r == 'async']
    outcomes = []
    if abegins:
        t0 = min(e['t'] for e in abegins)
        max_t = max(specs[e['b']]['T'] for e in abegins if e['b'] in specs)
        limit = t0 + int(max_t * 1e9) + slack_late_ns
        last_t = log[-1]['t'] if log else t0
        for e in sorted(abegins, key=lambda x: x['i']):
            name = e['b']
            own = specs[name]['T']
            end = ends.get((name, 'async'))
            if end is None:
                if last_t > limit:
                    bad('async-phase-exceeds-max-timeout',
                        f"{name}: init_async still running {(last_t - t0) / 1e9:.4f}s after the "
                        f"asynchronous phase began; the largest init_timeout is {max_t}")
                outcomes.append((name, 'unfinished'))
                continue
            outcomes.append((name, end['out']))
            el = end['t'] - t0
            if end['out'] == 'cancel':
                facts['async_timeout'] += 1
                if el < int(own * 1e9) - slack_early_ns:
                    bad('async-cancelled-before-timeout',
                        f"{name}: init_async cancelled {el / 1e9:.6f}s after the asynchronous "
                        f"phase began, its init_timeout is {own}")
            elif end['out'] == 'ok':
                facts['async_completed'] += 1
                if el > int(own * 1e9) + slack_late_ns:
                    facts['async_completed_between_own_and_max_timeout'] += 1
            elif end['out'] == 'exc':
                facts['async_routine_failed'] += 1
            if end['out'] != 'cancel-term' and end['t'] > limit:
                bad('async-phase-exceeds-max-timeout',
                    f"{name}: init_async ended {el / 1e9:.4f}s after the asynchronous phase "
                    f"began; the largest init_timeout is {max_t}")
        if i2 is not None and log[i2]['t'] > limit:
            bad('async-phase-exceeds-max-timeout',
                f"the second synchronous pass began {(log[i2]['t'] - t0) / 1e9:.4f}s after the "
                f"asynchronous phase; the largest init_timeout is {max_t}")
    info['async_outcomes'] = outcomes

    # ---- an event makes the synchronous steps run first
    for e in log:
        if e['k'] != 'h' or e['b'] not in specs or specs[e['b']].get('lib'):
            continue
        name = e['b']
        sp = specs[name]
        if e['nest'] > 0:
            facts['event_with_own_routine_on_stack'] += 1
            continue
        missing = []
        rb = begins.get((name, 'restore'))
        if sp['persist_avail'] and (rb is None or rb['i'] > e['i']):
            missing.append('restore')
        rb = begins.get((name, 'regular'))
        if rb is None or rb['i'] > e['i']:
            missing.append('regular')
        else:
            rend = ends.get((name, 'regular'))
            if (rend is not None and rend['i'] < e['i'] and rend['out'] == 'ok'
                    and not rend['init'] and sp['has_ifv'] and sp['initdef']):
                ib = begins.get((name, 'ifv'))
                if ib is None or ib['i'] > e['i']:
                    missing.append('initdef')
        if missing:
            bad(f"event-before-sync-steps/{'+'.join(missing)}",
                f"{name}: handled event {e['et']!r} from {e['src']} before its own synchronous "
                f"initialisation steps were done (missing: {missing})")
        else:
            facts['event_after_sync_steps'] += 1
    return viol, facts, info
