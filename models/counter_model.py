"""
Reference model of edzed.Counter, written from docs/sblocks1.rst ("Counter") and the
statement of property C20 - not from the code.

  * the value is an exact rational number (fractions.Fraction), so that the model never
    suffers from rounding; the generator of C20 only produces numbers for which Python's
    own arithmetic is exact too (integers of any size, or multiples of 0.5 below 2**40),
  * with a positive modulo M the value is reduced into [0, M) after every step,
  * 'inc'/'dec' use 'amount' (default 1), 'put' needs 'value', 'reset' restores the
    (reduced) initdef; other data items are ignored; every event returns the new value,
  * the initial value is the restored value when there is one, else initdef (default 0),
    reduced as well.
"""

from __future__ import annotations

import math
from fractions import Fraction


class Refused(Exception):
    """The configuration must be refused at construction."""


class MissingValue(Exception):
    """A 'put' without its 'value' item: reported to the caller, nothing changes."""


class UnknownEvent(Exception):
    """Not one of inc/dec/put/reset: reported to the caller, nothing changes."""


EVENTS = ('inc', 'dec', 'put', 'reset')


class CounterModel:

    def __init__(self, modulo=None, initdef=0):
        if modulo is not None and modulo == 0:
            raise Refused("modulo must not be zero")
        self.mod = None if modulo is None else Fraction(modulo)
        if self.mod is not None and self.mod < 0:
            raise ValueError("the model covers positive modulo only (as property C20 does)")
        self.initdef = Fraction(initdef)
        self.value = None           # not started yet

    def reduce(self, v: Fraction) -> Fraction:
        if self.mod is None:
            return v
        return v - self.mod * math.floor(v / self.mod)

    def in_range(self, v) -> bool:
        return self.mod is None or 0 <= Fraction(v) < self.mod

    def start(self, restored=None) -> Fraction:
        """Initial value: the restored one if present, otherwise initdef; reduced."""
        src = self.initdef if restored is None else Fraction(restored)
        self.value = self.reduce(src)
        return self.value

    def event(self, etype: str, data: dict) -> Fraction:
        """Apply one event; return the value the event must return."""
        if etype not in EVENTS:
            raise UnknownEvent(etype)
        if etype == 'inc':
            new = self.value + Fraction(data.get('amount', 1))
        elif etype == 'dec':
            new = self.value - Fraction(data.get('amount', 1))
        elif etype == 'put':
            if 'value' not in data:
                raise MissingValue()
            new = Fraction(data['value'])
        else:
            new = self.initdef
        self.value = self.reduce(new)
        return self.value
