"""
Event-flow reference model for C11: synchronous propagation of events through a graph
of sequential blocks with an "is handling an event" mark per block.

Written from docs/events.rst, docs/errors.rst ("Recursive events"), docs/new_sblocks.rst
("Event handling"), docs/blocks.rst ("Initialization rules"), docs/FSM.rst (transition
steps, chained transitions), docs/sblocks*.rst (Input, Counter, Repeat, OutputFunc,
filters) and the statement of property C11 - not from edzed/block.py.

A circuit is described by JSON (the plan of checks/c11.py):

block = {'name': str, 'kind': 'probe'|'input'|'counter'|'fsm'|'repeat'|'ofunc',
         'out': {trigger: [edge, ...]}, ... kind specific parameters ...}
edge  = {'dst': name, 'ev': EV, 'filters': [FILTER, ...]}
EV    = 'name' | {'goto': state} | {'cond': [EV|None, EV|None]}
FILTER= 'veto' | 'pass' | 'truthy' | 'nfu' | {'set': v} | {'setdef': v} | 'del'

Only the data items that influence the flow are tracked: 'value', 'previous', 'ok',
'duration'.  Values are plain Python values; arithmetic and comparisons are done with the
same Python operators the documentation names, so type confusion (a state name sent to a
Counter) fails in the model exactly where it fails in a real handler.

Outcome of a root delivery (initialisation of one block, or one external event):
  'ok'        handled (or ignored, filtered, resolved to no event)
  'unknown'   an unknown event type was reported (EdzedUnknownEvent); simulation goes on
  'param'     the *external* event itself lacked a required parameter; simulation goes on
  'recursion' an event reached a block that was handling an event: refused, simulation stops
  'abort'     another error inside a handler (incl. a parameter error of a nested event):
              simulation stops
"""

from __future__ import annotations

UNDEF = '<UNDEF>'


class Flow(Exception):
    """Base of the model's control-flow exceptions."""


class Recursion(Flow):
    def __init__(self, blk):
        super().__init__(blk)
        self.blk = blk


class Unknown(Flow):
    def __init__(self, blk, depth):
        super().__init__(blk)
        self.blk = blk
        self.depth = depth


class ParamError(Flow):
    def __init__(self, blk, depth):
        super().__init__(blk)
        self.blk = blk
        self.depth = depth


class FilterError(Exception):
    """An event filter was used against its documentation (modify() without the key)."""


class HandlerError(Flow):
    def __init__(self, blk, what):
        super().__init__(f"{blk}: {what}")
        self.blk = blk
        self.what = what


def is_cond(ev):
    return isinstance(ev, dict) and 'cond' in ev


def is_goto(ev):
    return isinstance(ev, dict) and 'goto' in ev


def apply_filters(filters, data, notes=None):
    """Return the (possibly new) data dict, or None when the event is filtered out."""
    for f in filters:
        if f == 'veto':
            return None
        if f == 'pass':
            continue
        if f == 'truthy':
            if not data.get('value'):
                return None
        elif f == 'nfu':
            if data.get('previous', UNDEF) == UNDEF:
                return None
        elif f == 'del':
            data = dict(data)
            data.pop('value', None)
        elif isinstance(f, dict) and 'set' in f:
            data = dict(data)
            data['value'] = f['set']
        elif isinstance(f, dict) and 'setdef' in f:
            data = dict(data)
            data.setdefault('value', f['setdef'])
        elif isinstance(f, dict) and 'edit' in f:
            # one DataEdit filter with chained steps, "processed left to right";
            # modify(): "if the function returns DataEdit.REJECT, the whole event is rejected"
            data = dict(data)
            for pos, step in enumerate(f['edit']):
                op = step[0]
                last = pos == len(f['edit']) - 1
                if op in ('rej_eq', 'rej_falsy', 'del_eq'):
                    if 'value' not in data:
                        raise FilterError("modify: the key must be present")
                    value = data['value']
                    if (op == 'rej_falsy' and not value) or (op == 'rej_eq' and value == step[1]):
                        if notes is not None:
                            notes.append('edit_reject_last' if last else 'edit_reject_nonfinal')
                        return None
                    if op == 'del_eq' and value == step[1]:
                        del data['value']
                elif op == 'add':
                    data['value'] = step[1]
                elif op == 'setdef':
                    data.setdefault('value', step[1])
                elif op == 'del':
                    data.pop('value', None)
                else:
                    raise ValueError(f"unknown edit step {step!r}")
        else:
            raise ValueError(f"unknown filter {f!r}")
    return data


# --------------------------------------------------------------------------- blocks

class BlockModel:
    kind = '?'

    def __init__(self, eng, spec):
        self.eng = eng
        self.spec = spec
        self.name = spec['name']
        self.out = spec.get('out', {})
        self.output = UNDEF
        self.busy = 0               # number of open deliveries to this block (0 = idle)
        self.window = 0             # > 0: the block may send an event to itself right now
        self.init = 0               # 0 = not yet, 1 = in progress, 2 = done

    # -- helpers
    def emit(self, trigger, data):
        for edge in self.out.get(trigger, ()):
            self.eng.send(self, edge, data)

    def set_output(self, value):
        prev = self.output
        if prev == value:
            if not self.out.get('on_every_output'):
                self.eng.note('unchanged_output_no_event')
                return
            self.eng.note('unchanged_output_every')
        else:
            self.output = value
            self.emit('on_output', {'previous': prev, 'value': value})
        self.emit('on_every_output', {'previous': prev, 'value': value})

    # -- to be provided
    def initialise(self):
        raise NotImplementedError

    def handle(self, ev, data):
        raise NotImplementedError

    def state(self):
        return self.output


class ProbeModel(BlockModel):
    """Recorder that forwards: accepts every event type; 'nop' returns at once."""
    kind = 'probe'

    def __init__(self, eng, spec):
        super().__init__(eng, spec)
        self.n = 0
        self.mode = spec.get('mode')

    def initialise(self):
        self.set_output(0)

    def handle(self, ev, data):
        if ev == 'nop':
            self.eng.note('early_return')
            return 'nop'
        self.n += 1
        value = data['value'] if 'value' in data else self.n
        if self.mode == 'count':
            self.set_output(self.n)
        elif self.mode == 'same':
            self.set_output(0)
        self.emit('fwd', {'value': value})
        return 'rec'

    def state(self):
        return [self.output, self.n]


class InputModel(BlockModel):
    kind = 'input'

    def initialise(self):
        if 'initdef' in self.spec:
            # "initdef ... init_from_value": the Input initialises itself with a put event
            self.eng.deliver(self.name, 'put', {'value': self.spec['initdef']}, own=True)

    def handle(self, ev, data):
        if ev != 'put':
            raise Unknown(self.name, self.eng.depth)
        if 'value' not in data:
            raise ParamError(self.name, self.eng.depth)
        value = data['value']
        allowed = self.spec.get('allowed')
        if allowed is not None and value not in frozenset(allowed):
            self.eng.note('early_return')
            return False
        self.set_output(value)
        return True


class CounterModel(BlockModel):
    kind = 'counter'

    def _setmod(self, value):
        mod = self.spec.get('modulo')
        try:
            out = value if mod is None else value % mod
        except Exception as err:        # pylint: disable=broad-except
            raise HandlerError(self.name, f"{type(err).__name__}") from None
        self.set_output(out)
        return out

    def initialise(self):
        self._setmod(self.spec.get('initdef', 0))

    def handle(self, ev, data):
        if ev in ('inc', 'dec'):
            amount = data.get('amount', 1)
            try:
                new = self.output + amount if ev == 'inc' else self.output - amount
            except Exception as err:    # pylint: disable=broad-except
                raise HandlerError(self.name, f"{type(err).__name__}") from None
            return self._setmod(new)
        if ev == 'put':
            if 'value' not in data:
                raise ParamError(self.name, self.eng.depth)
            return self._setmod(data['value'])
        if ev == 'reset':
            return self._setmod(self.spec.get('initdef', 0))
        raise Unknown(self.name, self.eng.depth)


class RepeatModel(BlockModel):
    """Only the synchronous part: the original event is passed on at once."""
    kind = 'repeat'

    def initialise(self):
        self.set_output(0)

    def handle(self, ev, data):
        if ev != self.spec['etype']:
            self.eng.note('early_return')
            return None
        self.set_output(0)
        edge = {'dst': self.spec['dest'], 'ev': self.spec['etype'], 'filters': []}
        self.eng.send(self, edge, data)
        return None


class OFuncModel(BlockModel):
    kind = 'ofunc'

    def __init__(self, eng, spec):
        super().__init__(eng, spec)
        self.calls = 0

    def initialise(self):
        self.set_output(False)

    def handle(self, ev, data):
        if ev != 'put':
            raise Unknown(self.name, self.eng.depth)
        script = self.spec['script']
        outcome = script[self.calls % len(script)]
        self.calls += 1
        if outcome == 'E':
            self.emit('on_error', {})
            return 'error'
        self.emit('on_success', {'value': outcome})
        return 'result'

    def state(self):
        return [self.output, self.calls]


class FsmFlowModel(BlockModel):
    """
    FSM as documented in FSM.rst: table lookup (specific state before any-state rule),
    on_notrans, conditions, exit action + on_exit events, state change, entry action (which
    may request ONE chained transition from the FSM itself), zero-length timed state (the
    timed event is the chained request), output, on_enter events.
    """
    kind = 'fsm'

    def __init__(self, eng, spec):
        super().__init__(eng, spec)
        cls = spec['spec']
        inst = spec['inst']
        self.inst = inst
        self.states = list(cls['states']) + [s for s in cls.get('timers', {})
                                             if s not in cls['states']]
        self.events = {r[0] for r in cls['rules']}
        self.table = {}
        for event, states, nxt in cls['rules']:
            if states is None:
                self.table[(event, None)] = nxt
            else:
                if isinstance(states, str):
                    states = [s.strip() for s in states.split('|')]
                for s in states:
                    self.table[(event, s)] = nxt
        self.methods = set(cls.get('methods', []))
        self.funcs = set(inst.get('funcs', []))
        # events sent by exit actions / condition functions ('m:exit_s1' = the method,
        # 'i:cond_e0' = the instance callback): {key: [{'to', 'how', 'ev', 'data'}, ...]}
        self.acts = inst.get('acts', {})
        self.timers = cls.get('timers', {})
        self.fstate = UNDEF
        self.in_transition = False
        self.pending = None         # the one chained request

    def state(self):
        return [self.output, self.fstate]

    def initialise(self):
        init = self.inst.get('initdef') or self.states[0]
        self.eng.deliver(self.name, {'goto': init}, {}, own=True)

    def _duration(self, state, data):
        d = data.get('duration')
        if d is None:
            d = self.inst.get('t', {}).get(state)
        if d is None:
            d = self.timers[state].get('dur')
        if d is None:
            raise HandlerError(self.name, 'no-duration')
        if d == 'inf':
            return float('inf')
        return max(0.0, float(d))

    def handle(self, ev, data):
        eng = self.eng
        if is_goto(ev):
            newstate = ev['goto']
            if newstate not in self.states:
                raise HandlerError(self.name, 'bad-goto')
        else:
            if not isinstance(ev, str) or ev not in self.events:
                raise Unknown(self.name, eng.depth)
            if (ev, self.fstate) in self.table:
                newstate = self.table[(ev, self.fstate)]
            else:
                newstate = self.table.get((ev, None))
            if newstate is None:
                eng.note('early_return')
                self._guarded(self.emit, 'on_notrans', {})
                return False
            if self.output != UNDEF and not self._guarded(self._conditions, ev, data):
                eng.note('early_return')
                return False
        if self.in_transition:
            if self.pending is not None:
                raise HandlerError(self.name, 'multi-chain')
            self.pending = (ev, data, newstate)
            return True
        self.in_transition = True
        try:
            return self._guarded(self._transition, ev, data, newstate)
        finally:
            self.in_transition = False

    def _run_acts(self, kind, name, where):
        """
        Events sent by an exit action or a condition function. Neither is a documented
        exception from the rule: whatever comes back to this FSM must be refused.
        """
        eng = self.eng
        for where_key, defined in (('i:', self.funcs), ('m:', self.methods)):
            if f"{kind}_{name}" not in defined:
                continue
            for act in self.acts.get(f"{where_key}{kind}_{name}", ()):
                eng.note(f"act_{where}")
                data = dict(act.get('data', {}))
                try:
                    if act.get('how') == 'send':
                        eng.send(self, {'dst': act['to'], 'ev': act['ev'], 'filters': []}, data)
                    else:
                        if act['to'] not in eng.blocks:
                            raise ValueError(f"action addressed to a missing block {act['to']}")
                        eng.deliver(act['to'], act['ev'], data, own=act['to'] == self.name)
                except Recursion:
                    eng.note(f"refused_{where}")
                    raise

    def _conditions(self, ev, data):
        """All condition functions are consulted; the event is accepted iff all agree."""
        self._run_acts('cond', ev, 'cond')
        return not (f"cond_{ev}" in self.methods and not data.get('ok', True))

    def _guarded(self, func, *args):
        """
        An 'unknown event' report passing through an FSM interrupts its transition at a
        documented step (FSM.rst lists the steps in order): what was done stays done. Only a
        chained request that was accepted but never executed is beyond the documentation:
        the model stops predicting then.
        """
        try:
            return func(*args)
        except Unknown:
            if self.pending is not None:
                self.eng.imprecise = True
            raise

    def _own_window(self, ev, data):
        """The FSM sends an event to itself (documented exception from the rule)."""
        self.window += 1
        try:
            self.eng.note('fsm_own_event')
            self.eng.deliver(self.name, ev, data, own=True)
        finally:
            self.window -= 1

    def _transition(self, ev, data, newstate):
        if self.output != UNDEF:
            self._run_acts('exit', self.fstate, 'exit_first')
            self.emit(f"on_exit:{self.fstate}", {'value': self.output})
        if self.pending is not None:
            raise HandlerError(self.name, 'stale-chained-request')
        for _ in range(3 * len(self.states)):
            if self.pending is not None:
                ev, data, newstate = self.pending
                self.pending = None
                # intermediate state: its exit action runs, no events are generated
                self._run_acts('exit', self.fstate, 'exit_intermediate')
            self.fstate = newstate
            if f"enter_{newstate}" in self.methods:
                for req in self.inst.get('chain', {}).get(newstate, []):
                    self._own_window(req['ev'], dict(req.get('data', {})))
            if self.pending is not None:
                continue
            if newstate in self.timers:
                if self._duration(newstate, data) <= 0.0:
                    self.eng.note('zero_timer')
                    self._own_window(self.timers[newstate]['ev'], {})
                    if self.pending is not None:
                        continue
            break
        else:
            raise HandlerError(self.name, 'chain-limit')
        self.set_output(self.fstate)
        self.emit(f"on_enter:{self.fstate}", {'value': self.output})
        return True


KINDS = {'probe': ProbeModel, 'input': InputModel, 'counter': CounterModel,
         'repeat': RepeatModel, 'ofunc': OFuncModel, 'fsm': FsmFlowModel}


# --------------------------------------------------------------------------- engine

class FlowModel:

    def __init__(self, blocks):
        self.blocks = {}
        self.order = []
        for spec in blocks:
            cls = KINDS.get(spec.get('kind'))
            if cls is None or spec['name'] in self.blocks:
                raise ValueError(f"bad block spec {spec.get('name')}/{spec.get('kind')}")
            self.blocks[spec['name']] = cls(self, spec)
            self.order.append(spec['name'])
        self.depth = 0              # number of open deliveries
        self.notes = []
        self.deliveries = []        # [(dst, refused)]
        self.imprecise = False
        self.alive = True
        self.initialising = False

    def note(self, tag):
        self.notes.append(tag)

    # -- primitives
    def send(self, src, edge, data):
        try:
            data = apply_filters(edge.get('filters', ()), dict(data), self.notes)
        except FilterError:
            # the exception is raised inside the sender's handler
            raise HandlerError(src.name, 'filter-error') from None
        if data is None:
            self.note('filter_veto')
            return
        if edge['dst'] not in self.blocks:
            raise ValueError(f"edge to a missing block {edge['dst']}")
        self.deliver(edge['dst'], edge['ev'], data)

    def deliver(self, dst, ev, data, own=False):
        blk = self.blocks[dst]
        if blk.busy and not (own and blk.window):
            # "While a block is handling an event, it will raise an exception when it
            # receives an event" - the exceptions are the block's OWN events in a window
            self.deliveries.append((dst, True))
            raise Recursion(dst)
        self.deliveries.append((dst, False))
        blk.busy += 1
        saved_window = blk.window
        blk.window = 0
        self.depth += 1
        if self.depth > 1 and not own:
            self.note('nested_delivery')
        try:
            while is_cond(ev):
                ev = ev['cond'][0] if data.get('value') else ev['cond'][1]
                if ev is None:
                    self.note('cond_none')
                    if blk.init == 0 and blk.spec.get('persistent'):
                        self.note('cond_none_uninit_persistent')
                    return None
                self.note('cond_resolved')
            if blk.init == 0:
                # "as a result of an incoming event triggered by other block's initialization"
                self.note('early_init')
                blk.window += 1
                try:
                    self.init_block(blk)
                except (Unknown, ParamError) as err:
                    # an error in an initialisation routine is fatal, also when the routine
                    # runs early because of a pending event and the sender gets the exception
                    raise HandlerError(dst, f"init-error/{type(err).__name__}") from None
                finally:
                    blk.window -= 1
            return blk.handle(ev, data)
        finally:
            self.depth -= 1
            blk.busy -= 1
            blk.window = saved_window

    def init_block(self, blk):
        blk.init = 1
        blk.initialise()
        blk.init = 2

    # -- roots
    def _root(self, func, *args):
        self.notes = []
        self.deliveries = []
        res = {'verdict': 'ok', 'at': None}
        try:
            func(*args)
        except Recursion as err:
            res = {'verdict': 'recursion', 'at': err.blk}
        except Unknown as err:
            res = {'verdict': 'unknown', 'at': err.blk, 'nested': err.depth > 1}
        except ParamError as err:
            nested = err.depth > 1
            res = {'verdict': 'abort' if nested else 'param', 'at': err.blk, 'nested': nested}
        except HandlerError as err:
            res = {'verdict': 'abort', 'at': err.blk, 'what': err.what}
        if res['verdict'] in ('recursion', 'abort'):
            self.alive = False
        # whatever happened, nothing may be left marked
        for blk in self.blocks.values():
            blk.busy = blk.window = 0
        self.depth = 0
        res['notes'] = self.notes
        res['deliveries'] = self.deliveries
        return res

    def initialise(self):
        """Start-up in creation order. Any error is a start-up failure."""
        self.initialising = True
        out = {'verdict': 'ok', 'at': None, 'notes': [], 'deliveries': []}
        for name in self.order:
            blk = self.blocks[name]
            if blk.init == 0:
                res = self._root(self.init_block, blk)
                out['notes'] += res['notes']
                out['deliveries'] += res['deliveries']
                if res['verdict'] != 'ok':
                    out['verdict'] = 'recursion' if res['verdict'] == 'recursion' else 'fail'
                    out['at'] = res['at']
                    out['why'] = res['verdict']
                    self.alive = False
                    break
        else:
            for name in self.order:
                if self.blocks[name].output == UNDEF:
                    out['verdict'] = 'fail'
                    out['at'] = name
                    out['why'] = 'uninitialised'
                    self.alive = False
                    break
        self.initialising = False
        return out

    def external(self, dst, ev, data):
        if dst not in self.blocks:
            raise ValueError(f"external event to a missing block {dst}")
        return self._root(self.deliver, dst, ev, dict(data))

    def outputs(self):
        return {name: self.blocks[name].state() for name in self.order}
