"""
Reference model of output events (property C02).

Written from docs/events.rst ("Output events", "Event objects", "Event filters",
"EventCond"), docs/blocks.rst (on_output / on_every_output), docs/new_sblocks.rst
(set_output) and the statement of C02 - not from edzed/block.py.

The model knows nothing about asyncio and does not import edzed. It is driven by
*stimuli* (one external event, one top level initialisation of a sequential block, one
evaluation of a combinational block) and returns, for each stimulus, the exact ordered
list of things that must happen synchronously inside it:

    ('A', sender, value, meta)          an output assignment of a sequential sender begins
    ('Z', sender)                       ... and returns
    ('F', filter_id, meta)              an event filter is consulted (an event is being sent)
    ('R', dest, etype, data, meta, outs)  a destination handler receives etype with data;
                                        outs = {sender: its output at that moment}

meta = {'src': sender name, 'list': 'o' | 'e' | 'f', 'idx': position in the configured list,
        'changed': the triggering assignment changed the output}
('o' = on_output, 'e' = on_every_output, 'f' = forwarded by a recorder probe)

What the documentation and the property fix:
  * on_output events are sent when the output *changes*: consecutive values that compare
    unequal (Python !=); on_every_output events each time the output is set;
  * data: previous (UNDEF on the first change), value, source = sender's name,
    trigger = 'output';
  * each configured event once per trigger, in the configured order, on_output before
    on_every_output; everything is finished before the assignment returns;
  * filters run as a pipeline in definition order: a returned mapping replaces the data,
    anything else accepts/rejects by truth value; the handler gets the data that left the
    last filter;
  * EventCond(etrue, efalse): etype = etrue if data['value'] else efalse; None = no event;
  * an event may reach a block that is not initialised yet (events are generated during
    the initialisation): such a block is initialised first, then it handles the event.
    (docs/new_sblocks.rst, "Initialization": a block must be able to process events)
  * an unchanged assignment keeps the old output object (the 'previous' of the next event is
    the output before the change).
  * 'value' is the NEW output: while the events of a change are being delivered (filters,
    handlers and everything they trigger) the sender's output already is data['value'] -
    for sequential and combinational senders alike (DataEdit.add_output / IfOutput read it).
  * nothing in the documentation or the property limits output events to the time the circuit
    is "ready": a change after a shutdown/abort request (Event('_ctrl', ...)) or during the
    clean-up (a block's stop()) is reported like any other.
  * FSM blocks (Timer, InputExp, generic FSM): every completed transition computes the output
    (calc_output) and assigns it unless it is UNDEF (docs/FSM.rst "Output"), so a transition
    that leaves the output unchanged still is an assignment (on_every_output).
"""

from __future__ import annotations

import collections

NOVAL = 'noval'

REC_ETYPES = ('put', 'ev1', 'ev2')
SETTER_ETYPES = ('set', 'dbl', 'pair')
INPUT_ETYPES = ('put',)
COUNTER_ETYPES = ('inc', 'dec', 'put', 'reset')
TIMER_ETYPES = ('start', 'stop', 'toggle')
INPUTEXP_ETYPES = ('put',)
GFSM_ETYPES = ('next', 'stay', 'back')
CTRL_ETYPES = ('shutdown', 'abort')
FSM_KINDS = ('timer', 'inputexp', 'gfsm')
SENDER_KINDS = ('setter', 'input', 'counter', 'func') + FSM_KINDS
# the generic FSM of the harness: states a, b, c
GFSM_TABLE = {('next', 'a'): 'b', ('next', 'b'): 'c', ('next', 'c'): 'a',
              ('stay', 'a'): 'a', ('stay', 'b'): 'b', ('stay', 'c'): 'c',
              ('back', 'c'): 'a', ('back', 'b'): 'a'}


class ModelError(Exception):
    """The plan cannot be interpreted by the model."""


def forward_data(data):
    """Data a forwarding recorder probe sends on (harness behaviour, shared with the probe)."""
    hop = data.get('hop', 0)
    return {'value': data.get('value', NOVAL), 'hop': (hop if isinstance(hop, int) else 0) + 1,
            'via': data.get('source')}


def setter_values(etype, data, alt):
    """Sequence of assignments a Setter probe makes for one event (harness behaviour)."""
    value = data.get('value', NOVAL)
    if etype == 'set':
        return [value]
    if etype == 'dbl':
        return [value, value]
    if etype == 'pair':
        return [alt, value]
    raise ModelError(f"Setter does not know {etype!r}")


def input_check(kind, value):
    """Input(check=...) used by the harness."""
    if kind is None:
        return True
    if kind == 'notnone':
        return value is not None
    if kind == 'nottuple':
        return not isinstance(value, tuple)
    raise ModelError(f"unknown check {kind!r}")


class Ev:
    """A configured event."""
    __slots__ = ('dest', 'etype', 'filters')

    def __init__(self, dest, etype, filters):
        self.dest = dest            # destination block name
        self.etype = etype          # str or ('cond', etrue|None, efalse|None)
        self.filters = filters      # [(filter_id, kind, arg)]


class Blk:
    __slots__ = ('name', 'kind', 'out', 'inited', 'on_output', 'on_every', 'forward',
                 'init', 'alt', 'check', 'mod', 'nassign', 'state', 'restartable', 'expired',
                 'has_init', 'outmap', 'stopval', 'stopped', 'initreg')

    def __init__(self, name, kind, undef):
        self.name = name
        self.kind = kind            # setter | input | counter | func | rec
        self.out = undef
        self.inited = False
        self.on_output = []
        self.on_every = []
        self.forward = []
        self.init = None
        self.alt = None
        self.check = None
        self.mod = None
        self.nassign = 0
        self.state = None           # FSM kinds
        self.restartable = True     # timer
        self.expired = None         # inputexp: output in state 'expired'
        self.has_init = False       # inputexp: an initial value was given
        self.outmap = None          # gfsm: state -> output (undef = leave unchanged)
        self.stopval = NOVAL        # setter: value assigned by stop()
        self.stopped = False
        self.initreg = False        # setter: initialised by init_regular (else from initdef)


class OutEventModel:

    def __init__(self, undef):
        self.undef = undef
        self.blocks = {}
        self.entries = []
        self.stats = collections.Counter()
        self.depth = 0
        self.stop_requested = None  # first 'shutdown' / 'abort' that reached the control block
        self.senders = []

    def add(self, blk):
        if blk.name in self.blocks:
            raise ModelError(f"duplicate block {blk.name}")
        self.blocks[blk.name] = blk
        if blk.kind in SENDER_KINDS:
            self.senders.append(blk)

    def outputs(self):
        return {b.name: b.out for b in self.senders}

    # ------------------------------------------------------------ stimuli
    def ext_event(self, name, etype, data):
        self.entries = []
        self.depth = 0
        self._deliver(name, etype, dict(data), None)
        return self.entries

    def init_top(self, name):
        blk = self._blk(name)
        if blk.inited:
            raise ModelError(f"{name} is initialised a second time")
        self.entries = []
        self.depth = 0
        self._init_block(blk)
        return self.entries

    def stop_top(self, name):
        """stop() of a Setter probe that assigns a last value during the clean-up."""
        blk = self._blk(name)
        if blk.kind != 'setter' or blk.stopval is NOVAL or blk.stopped:
            raise ModelError(f"{name}: unexpected assignment in stop()")
        blk.stopped = True
        self.entries = []
        self.depth = 0
        self.stats['stop_assignment'] += 1
        self._assign(blk, blk.stopval)
        return self.entries

    def cblock_eval(self, name, computed):
        """One evaluation of a combinational block that computed 'computed'."""
        blk = self._blk(name)
        if blk.kind != 'func':
            raise ModelError(f"{name} is not combinational")
        self.entries = []
        self.depth = 0
        previous = blk.out
        changed = bool(previous != computed)
        if changed:
            blk.out = computed
            blk.nassign += 1
            for idx, ev in enumerate(blk.on_output):
                self._send(ev, blk, {'src': name, 'list': 'o', 'idx': idx, 'changed': True},
                           previous, computed)
        return self.entries, changed

    # ------------------------------------------------------------ internals
    def _blk(self, name):
        try:
            return self.blocks[name]
        except KeyError:
            raise ModelError(f"unknown block {name!r}") from None

    def _init_block(self, blk):
        blk.inited = True
        if blk.kind == 'rec':
            return
        if blk.out is not self.undef and not blk.initreg:
            # docs/blocks.rst "Initialization rules", item 4: the initdef value is used "only if
            # still not initialized" (here: a block that got an output in a stop() of a
            # simulation that was terminated before the initialisation)
            self.stats['init_skipped_has_output'] += 1
            return
        if blk.kind == 'setter':
            self._assign(blk, blk.init)
        elif blk.kind == 'input':
            if not input_check(blk.check, blk.init):
                raise ModelError(f"{blk.name}: initdef does not validate")
            self._assign(blk, blk.init)
        elif blk.kind == 'counter':
            self._assign(blk, self._modulo(blk, blk.init))
        elif blk.kind == 'timer':
            if blk.init not in ('on', 'off'):
                raise ModelError('bad timer state')
            blk.state = blk.init
            self._assign(blk, blk.state == 'on')
        elif blk.kind == 'inputexp':
            if blk.has_init:
                blk.state = 'valid'
                self._assign(blk, blk.init)
            else:
                blk.state = 'expired'
                self._assign(blk, blk.expired)
        elif blk.kind == 'gfsm':
            if blk.init not in blk.outmap or blk.outmap[blk.init] is self.undef:
                raise ModelError('bad initial state of the generic FSM')
            blk.state = blk.init
            self._assign(blk, blk.outmap[blk.state])
        elif blk.kind == 'ctrl':
            pass
        else:
            raise ModelError(f"{blk.name}: cannot initialise a {blk.kind}")

    @staticmethod
    def _modulo(blk, value):
        return value if blk.mod is None else value % blk.mod

    def _assign(self, blk, value):
        """An output assignment of a sequential block."""
        previous = blk.out
        changed = bool(previous != value)
        if self.depth:
            self.stats['nested_assignment'] += 1
        self.depth += 1
        self.entries.append(('A', blk.name, value, {'changed': changed}))
        blk.nassign += 1
        if self.stop_requested is not None and changed and blk.on_output:
            self.stats['change_after_stop_request'] += 1
        if not changed and blk.kind in FSM_KINDS and blk.on_every:
            self.stats['fsm_unchanged_every'] += 1
        if changed:
            if previous is not self.undef and value != value:   # pylint: disable=comparison-with-itself
                self.stats['nan_change'] += 1
            blk.out = value
            for idx, ev in enumerate(blk.on_output):
                self._send(ev, blk, {'src': blk.name, 'list': 'o', 'idx': idx, 'changed': True},
                           previous, value)
            if blk.on_output and blk.on_every:
                self.stats['both_kinds'] += 1
            if len(blk.on_output) + len(blk.on_every) >= 3:
                self.stats['three_events_one_trigger'] += 1
        else:
            # the old object stays the output
            self.stats['unchanged'] += 1
            if previous is not value:
                self.stats['unchanged_eq_not_identical'] += 1
        for idx, ev in enumerate(blk.on_every):
            self._send(ev, blk, {'src': blk.name, 'list': 'e', 'idx': idx, 'changed': changed},
                       previous, value)
        self.entries.append(('Z', blk.name))
        self.depth -= 1

    def _send(self, ev, src, meta, previous, value):
        data = {'trigger': 'output', 'previous': previous, 'value': value}
        self._send_data(ev, src, meta, data)

    def _send_data(self, ev, src, meta, data):
        data['source'] = src.name
        for fid, kind, arg in ev.filters:
            self.entries.append(('F', fid, meta))
            verdict, newdata = self._filter(kind, arg, data)
            if verdict == 'data':
                if newdata is not data:
                    self.stats['edit'] += 1
                data = newdata
            elif verdict == 'reject':
                self.stats['veto'] += 1
                return
        self._deliver(ev.dest, ev.etype, data, meta)

    def _filter(self, kind, arg, data):
        undef = self.undef
        if kind in ('pass', 'one'):
            return 'accept', None
        if kind == 'passd':
            return 'data', data
        if kind in ('veto', 'none', 'zero'):
            return 'reject', None
        if kind == 'truthy':
            return ('accept' if data.get('value') else 'reject'), None
        if kind == 'nfu':
            # not_from_undef: "Filter out the initial transition from UNDEF to the first real
            # value. It checks the item 'previous'."
            return ('reject' if data.get('previous', undef) is undef else 'accept'), None
        if kind == 'edge':
            # Edge(rise, fall, u_rise, u_fall): only explicitly allowed combinations pass
            if 'value' not in data or 'previous' not in data:
                raise ModelError("Edge needs previous and value")
            rise, fall, u_rise, u_fall = arg
            if u_rise is None:
                u_rise = rise
            cur = bool(data['value'])
            if data['previous'] is undef:
                ok = u_rise if cur else u_fall
            else:
                prev = bool(data['previous'])
                ok = (not prev and rise) if cur else (prev and fall)
            return ('accept' if ok else 'reject'), None
        if kind == 'add':
            return 'data', {**data, 'tag': arg}
        if kind == 'inplace':
            data['mark'] = arg
            return 'accept', None
        if kind == 'delprev':
            new = dict(data)
            new.pop('previous', None)
            return 'data', new
        if kind == 'copyv':
            if 'value' not in data:
                raise ModelError("copy needs value")
            new = dict(data)
            new['v2'] = data['value']
            return 'data', new
        if kind == 'only':
            return 'data', {k: v for k, v in data.items() if k in ('value', 'source')}
        if kind == 'veq':
            return ('accept' if data.get('value', NOVAL) == arg else 'reject'), None
        if kind == 'addout':
            # DataEdit.add_output(key, block): "Add key=block's output"
            self.stats['addout_filter'] += 1
            return 'data', {**data, 'now': self._blk(arg).out}
        if kind == 'ifout':
            # IfOutput(block): passes while the block's output is true
            return ('accept' if self._blk(arg).out else 'reject'), None
        if kind == 'empty':
            # docs/events.rst: a returned dict (any dict) accepts the event and becomes its data
            return 'data', {}
        raise ModelError(f"unknown filter {kind!r}")

    def _deliver(self, name, etype, data, meta):
        blk = self._blk(name)
        if blk.kind == 'func':
            raise ModelError(f"event addressed to combinational block {name}")
        if isinstance(etype, (tuple, list)):
            if len(etype) != 3 or etype[0] != 'cond':
                raise ModelError(f"bad event type {etype!r}")
            etype = etype[1] if data.get('value') else etype[2]
            if etype is None:
                self.stats['cond_none'] += 1
                return
            self.stats['cond_event'] += 1
        if not isinstance(etype, str) or not etype:
            raise ModelError(f"bad event type {etype!r}")
        if blk.kind == 'ctrl':
            if etype not in CTRL_ETYPES:
                raise ModelError(f"control block: unknown event {etype!r}")
            blk.inited = True
            if self.stop_requested is None:
                self.stop_requested = etype
            self.stats['ctrl_event'] += 1
            return
        if not blk.inited:
            # events are generated during the initialisation as well: the destination is
            # initialised first
            if meta is not None:
                self.stats['early_init_dest'] += 1
            else:
                self.stats['pre_init_ext'] += 1
            self._init_block(blk)
        if blk.kind == 'rec':
            if etype not in REC_ETYPES:
                raise ModelError(f"recorder: unknown event {etype!r}")
            self.entries.append(('R', name, etype, dict(data), meta, self.outputs()))
            if meta is not None:
                self.stats['delivered'] += 1
                if meta['list'] == 'e' and not meta['changed']:
                    self.stats['every_unchanged_event'] += 1
                if meta['list'] in 'oe' and data.get('previous', 0) is self.undef:
                    self.stats['event_prev_undef'] += 1
                if meta['list'] == 'f':
                    self.stats['forwarded'] += 1
                if self._blk(meta['src']).kind == 'func':
                    self.stats['cblock_event'] += 1
            for idx, ev in enumerate(blk.forward):
                fmeta = {'src': name, 'list': 'f', 'idx': idx, 'changed': True}
                self._send_data(ev, blk, fmeta, forward_data(data))
            return
        if meta is not None and self._blk(meta['src']).kind == 'func':
            self.stats['cblock_to_sblock'] += 1
        if blk.kind == 'setter':
            values = setter_values(etype, data, blk.alt)
            if len(values) > 1:
                self.stats['multi_assign_one_event'] += 1
            for value in values:
                self._assign(blk, value)
            return
        if blk.kind == 'input':
            if etype != 'put' or 'value' not in data:
                raise ModelError(f"Input: bad event {etype!r}")
            if not input_check(blk.check, data['value']):
                self.stats['input_rejected'] += 1
                return
            self._assign(blk, data['value'])
            return
        if blk.kind == 'counter':
            cur = blk.out
            if etype == 'inc':
                new = cur + data.get('amount', 1)
            elif etype == 'dec':
                new = cur - data.get('amount', 1)
            elif etype == 'put':
                if 'value' not in data:
                    raise ModelError("Counter put without value")
                new = data['value']
            elif etype == 'reset':
                new = blk.init
            else:
                raise ModelError(f"Counter: unknown event {etype!r}")
            self._assign(blk, self._modulo(blk, new))
            return
        if blk.kind == 'timer':
            if etype == 'start':
                ok = blk.restartable or blk.state != 'on'
                new = 'on'
            elif etype == 'stop':
                ok = blk.restartable or blk.state != 'off'
                new = 'off'
            elif etype == 'toggle':
                ok = True
                new = 'off' if blk.state == 'on' else 'on'
            else:
                raise ModelError(f"Timer: unknown event {etype!r}")
            if ok:
                blk.state = new
                self._assign(blk, new == 'on')
            return
        if blk.kind == 'inputexp':
            if etype != 'put' or 'value' not in data:
                raise ModelError(f"InputExp: bad event {etype!r}")
            blk.state = 'valid'
            self._assign(blk, data['value'])
            return
        if blk.kind == 'gfsm':
            if etype not in GFSM_ETYPES:
                raise ModelError(f"generic FSM: unknown event {etype!r}")
            new = GFSM_TABLE.get((etype, blk.state))
            if new is None:
                return          # no transition: nothing happens to the output
            blk.state = new
            out = blk.outmap[new]
            if out is not self.undef:
                self._assign(blk, out)
            else:
                self.stats['fsm_undef_output'] += 1
            return
        raise ModelError(f"unknown block kind {blk.kind!r}")
