"""
Reference interpreter for edzed FSMs, written from docs/FSM.rst and the property
statements C03/C04 (not from edzed/fsm.py).

A *spec* (JSON) describes a class, an *inst* (JSON) one block:

spec = {'cls': 'G1', 'states': [...], 'timers': {state: {'dur': num|None|'inf', 'ev': EV}},
        'rules': [[event, states|None, next|None], ...],
        'methods': ['enter_s1', 'exit_s0', 'cond_e0', ...]}
inst = {'name': ..., 'cls': ..., 'initdef': state|None, 't': {state: num|'inf'},
        'funcs': ['enter_s1', 'cond_e0', ...],       # instance callbacks
        'chain': {state: [ {'ev': EV, 'data': {...}}, ... ]},   # requests made by enter_STATE
        'undef_in': [states]                          # calc_output returns UNDEF there
       }
EV = 'name' | {'goto': state}

Conditions are scripted: a cond_E *method* is true iff flags.get('m:E', True) and
data.get('ok', True); an instance cond_E callback is true iff flags.get('i:E', True).
"""

from __future__ import annotations

INF = float('inf')
UNDEF = '<UNDEF>'


class ModelError(Exception):
    """The model predicts that the simulation is aborted by this event."""

    def __init__(self, kind):
        super().__init__(kind)
        self.kind = kind


def ev_key(ev):
    return ('goto', ev['goto']) if isinstance(ev, dict) else ev


def norm_duration(value):
    """Numbers only (strings are pre-converted by the generator's own table)."""
    if value is None:
        return None
    if value == 'inf':
        return INF
    value = float(value)
    return max(0.0, value)


class FsmModel:

    def __init__(self, spec, inst, str_durations=None):
        self.spec = spec
        self.inst = inst
        self.strdur = str_durations or {}
        self.states = list(spec['states']) + [s for s in spec.get('timers', {})
                                              if s not in spec['states']]
        self.events = {r[0] for r in spec['rules']}
        self.table = {}
        for event, states, nxt in spec['rules']:
            if states is None:
                self.table[(event, None)] = nxt
            else:
                if isinstance(states, str):
                    states = [s.strip() for s in states.split('|')]
                for s in states:
                    self.table[(event, s)] = nxt
        self.methods = set(spec.get('methods', []))
        self.funcs = set(inst.get('funcs', []))
        self.flags = {}
        self.state = UNDEF
        self.output = UNDEF
        self.timer = None       # (duration, EV) of the state just entered, consumed by monitor
        self.has_timer = False  # a timer is pending
        self.log = []
        self.dead = False

    # ---- helpers ----
    def _dur(self, value):
        if isinstance(value, str) and value != 'inf':
            return float(self.strdur[value])
        return norm_duration(value)

    def duration_for(self, state, data):
        """Effective duration: event item > instance t_STATE > class default."""
        d = data.get('duration') if data else None
        if d is not None:
            return self._dur(d)
        d = self.inst.get('t', {}).get(state)
        if d is not None:
            return self._dur(d)
        d = self.spec['timers'][state].get('dur')
        if d is not None:
            return self._dur(d)
        return None

    def calc_output(self):
        if self.state in self.inst.get('undef_in', []):
            return UNDEF
        return self.state

    def cond_values(self, event, data):
        """Return [(kind, value)] for the defined conditions."""
        out = []
        if f"cond_{event}" in self.funcs:
            out.append(('inst', bool(self.flags.get(f"i:{event}", True))))
        if f"cond_{event}" in self.methods:
            out.append(('method', bool(self.flags.get(f"m:{event}", True))
                        and bool(data.get('ok', True))))
        return out

    def _cb(self, kind, name, data):
        for where, defined in (('inst', self.funcs), ('method', self.methods)):
            if f"{kind}_{name}" in defined:
                self.log.append([kind, where, name, dict(data)])

    # ---- the interpreter ----
    def lookup(self, etype, data):
        """Return (newstate | None=rejected, notrans: bool). May log cond calls."""
        if isinstance(etype, dict):
            return etype['goto'], False
        if etype not in self.events:
            raise ModelError('unknown-event')
        try:
            newstate = self.table[(etype, self.state)]
        except KeyError:
            newstate = self.table.get((etype, None))
        if newstate is None:
            self.log.append(['notrans', etype, self.state])
            return None, True
        if self.output != UNDEF:
            conds = self.cond_values(etype, data)
            self.log.append(['conds', etype, [[k, v] for k, v in conds], dict(data)])
            if not all(v for _k, v in conds):
                return None, False
        return newstate, False

    def event(self, etype, data=None):
        """Process an event from outside a transition. Returns True/False (accepted)."""
        data = dict(data or {})
        self.log = []
        self.timer = None
        newstate, _ = self.lookup(etype, data)
        if newstate is None:
            return False
        limit = 1000
        if self.output != UNDEF:
            self._cb('exit', self.state, data)
            self.log.append(['on_exit', self.state, self.output])
        self.has_timer = False
        pending = None
        seen = set()
        while True:
            limit -= 1
            if pending is not None:
                # leaving an intermediate state
                etype, data, newstate = pending
                self._cb('exit', self.state, data)
                pending = None
            key = (newstate, repr(sorted(data.items())))
            if key in seen or limit <= 0:
                # a deterministic chain that revisits a state with the same data never ends
                self.dead = True
                raise ModelError('chain-limit')
            seen.add(key)
            self.state = newstate
            self._cb('enter', newstate, data)
            # chain requests made by the entry action (the method, when defined)
            requests = self.inst.get('chain', {}).get(newstate, [])
            if requests and (f"enter_{newstate}" in self.methods):
                for req in requests:
                    rdata = dict(req.get('data', {}))
                    nstate, _nt = self.lookup(req['ev'], rdata)
                    self.log.append(['chain-req', ev_key(req['ev']), nstate is not None])
                    if nstate is None:
                        continue
                    if pending is not None:
                        self.dead = True
                        raise ModelError('multi-chain')
                    pending = (req['ev'], rdata, nstate)
            if pending is not None:
                continue
            if newstate in self.spec.get('timers', {}):
                timed_event = self.spec['timers'][newstate]['ev']
                duration = self.duration_for(newstate, data)
                if duration is None:
                    self.dead = True
                    raise ModelError('no-duration')
                if duration == INF:
                    pass
                elif duration <= 0.0:
                    nstate, _nt = self.lookup(timed_event, {})
                    self.log.append(['zero-timer', ev_key(timed_event), nstate is not None])
                    if nstate is not None:
                        pending = (timed_event, {}, nstate)
                        continue
                else:
                    self.timer = (duration, timed_event)
                    self.has_timer = True
            break
        out = self.calc_output()
        if out != UNDEF:
            prev = self.output
            self.output = out
            if prev != out:
                self.log.append(['on_output', prev, out])
        self.log.append(['on_enter', self.state, self.output])
        return True


TIMER_SPEC = {
    'cls': 'Timer', 'states': ['off', 'on'],
    'timers': {'on': {'dur': 'inf', 'ev': 'stop'}, 'off': {'dur': 'inf', 'ev': 'start'}},
    'rules': [['start', None, 'on'], ['stop', None, 'off'],
              ['toggle', 'on', 'off'], ['toggle', 'off', 'on']],
    'methods': ['cond_start', 'cond_stop'],
}


class TimerModel(FsmModel):
    """edzed.Timer as documented: bistable/monostable/astable, restartable or not."""

    def __init__(self, inst, str_durations=None):
        inst = dict(inst)
        t = dict(inst.get('t', {}))
        if inst.get('t_period') is not None:
            half = float(inst['t_period']) / 2
            t['on'] = t['off'] = half
        inst['t'] = t
        super().__init__(TIMER_SPEC, inst, str_durations)
        self.restartable = bool(inst.get('restartable', True))

    def cond_values(self, event, data):
        if event == 'start':
            return [('method', self.restartable or self.state != 'on')]
        if event == 'stop':
            return [('method', self.restartable or self.state != 'off')]
        return []

    def calc_output(self):
        return self.state == 'on'


INPUTEXP_SPEC = {
    'cls': 'InputExp', 'states': ['expired', 'valid'],
    'timers': {'valid': {'dur': None, 'ev': {'goto': 'expired'}}},
    'rules': [['put', None, 'valid']],
    'methods': ['cond_put'],
}


class InputExpModel(FsmModel):
    """edzed.InputExp without validators: value replaced by 'expired' after the duration."""

    def __init__(self, inst, str_durations=None):
        inst = dict(inst)
        inst['t'] = {'valid': inst.get('duration')} if inst.get('duration') is not None else {}
        self.has_init = 'init_value' in inst
        inst['initdef'] = 'valid' if self.has_init else 'expired'
        super().__init__(INPUTEXP_SPEC, inst, str_durations)
        self.expired_value = inst.get('expired')
        self.value = inst.get('init_value')

    def cond_values(self, event, data):
        if event == 'put':
            if 'value' not in data:
                raise ModelError('put-without-value')
            self.value = data['value']
            return [('method', True)]
        return []

    def calc_output(self):
        return self.value if self.state == 'valid' else self.expired_value
