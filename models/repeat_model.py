"""
Reference model of edzed.Repeat, written from docs/sblocks1.rst ("Repeat"),
docs/events.rst (Event(..., repeat=, count=)) and the statement of property C18.
It does not import edzed or asyncio.

Documented behaviour used:

 * only events of the configured type are repeated, all others are ignored;
 * a received event is re-sent immediately (synchronously, inside the delivery),
   then duplicates are sent in time intervals 'interval'; after 'count' duplicates
   the repeating stops (None = no limit, 0 = no duplicates); the original is always
   re-sent and is not counted;
 * the block re-sends the *last received* event: a newer event replaces the older
   one and its numbering starts again;
 * forwarded data: all original items; 'source' is saved to 'orig_source' and replaced
   by the Repeat block's name; 'repeat' = 0 for the original, 1, 2, 3 ... for duplicates;
 * the repeat value is also copied to the output, the initial output is 0.

Two parts:

 RepeatMonitor   monitor style oracle for ONE Repeat block. It is fed with the
                 observed inputs and outputs (stamped with integer nanoseconds) in the
                 observed order; where asyncio leaves a choice (a newer event in the same
                 instant as a due repetition) both outcomes "repetition, then the event" and
                 "event, repetition pre-empted" are legal. It never predicts who wins.
 predict()       exact-arithmetic schedule of repetition instants for a chain of Repeat
                 blocks; used by the generator only (to aim events at repetition instants).
"""

from __future__ import annotations

import heapq

RESERVED = ('source', 'orig_source', 'repeat')


def items_of(data):
    """The 'original data items' of an event: everything the Repeat block does not own."""
    return {k: v for k, v in data.items() if k not in RESERVED}


class _Rec:
    """One received event of the repeated type."""
    __slots__ = ('seq', 'items', 'src', 't_in', 'last_send', 'last_rep', 'overdue_flagged',
                 'incoming_repeat', 'superseded_at')

    def __init__(self, seq, data, now):
        self.seq = seq
        self.items = items_of(data)
        self.src = data.get('source')
        self.incoming_repeat = 'repeat' in data
        self.t_in = now
        self.last_send = None       # ns of the last (re-)send
        self.last_rep = -1          # repeat number of the last (re-)send
        self.overdue_flagged = False
        self.superseded_at = None   # ns when a newer event replaced this one


class RepeatMonitor:
    """
    Oracle for one Repeat block.

    name         the block's name (expected 'source' of everything it sends)
    etype        the repeated event type
    interval_ns  interval
    count        None or int >= 0
    slack_ns     how late a repetition may be (0-latency, 0-cost stratum: the tolerance only)
    tol_ns       rounding tolerance of time comparisons

    Observation entry points (all take the current time in ns):
      input_begin / input_end   around the delivery of an event to the block
      output(sync=True)         a delivery to the destination made inside input_begin..input_end
      output(sync=False)        a delivery to the destination made at any other time
      idle                      a point where nothing is running (overdue check)

    Findings are appended to self.problems as (clause, message); events for reach
    statistics to self.marks.
    """

    def __init__(self, name, etype, interval_ns, count, *, slack_ns, tol_ns=1000):
        self.name = name
        self.etype = etype
        self.interval_ns = int(interval_ns)
        self.count = count
        self.slack_ns = int(slack_ns)
        self.tol_ns = int(tol_ns)
        self.cur = None             # the most recent event of the repeated type
        self.prev = None            # the event it replaced
        self.older = []             # replaced events, newest first (at most 4)
        self.call = None            # delivery in progress
        self.nseq = 0
        self.required = True        # repetitions are demanded (False once the stop was requested)
        self.last_number = 0        # 'repeat' of the last delivery made by the block
        self.problems = []
        self.marks = []
        self.n_repetitions = 0
        self.n_forwards = 0

    # ---- helpers
    def problem(self, clause, msg):
        self.problems.append((clause, msg))

    def mark(self, what):
        self.marks.append(what)

    def wants_more(self, rec):
        return rec is not None and (self.count is None or rec.last_rep < self.count)

    def due_ns(self, rec):
        base = rec.last_send if rec.last_send is not None else rec.t_in
        return base + self.interval_ns

    def expected_output(self):
        return self.last_number

    def pending(self):
        """A repetition of the current event is still to come."""
        return self.cur is not None and self.wants_more(self.cur)

    def _check_overdue(self, now, where):
        rec = self.cur
        if rec is None or not self.required or rec.overdue_flagged or not self.wants_more(rec):
            return
        late = now - self.due_ns(rec)
        if late > self.slack_ns:
            rec.overdue_flagged = True
            self.problem('repetition/overdue',
                         f"repetition {rec.last_rep + 1} of event #{rec.seq} was due "
                         f"{late / 1e9:.6f}s ago ({where}) and was not sent")

    # ---- inputs
    def input_begin(self, now, etype, data):
        match = etype == self.etype
        self.call = {'match': match, 'forwards': 0, 'etype': etype,
                     'collision': 'repeat' in data}
        if not match:
            self.mark('foreign_type')
            return
        self._check_overdue(now, 'a newer event arrived')
        old = self.cur
        if old is not None:
            if self.wants_more(old):
                self.mark('preempted')
                if abs(now - self.due_ns(old)) <= self.tol_ns:
                    self.mark('tie_event_first')
            if old.last_rep >= 1 and old.last_send is not None \
                    and abs(now - old.last_send) <= self.tol_ns:
                self.mark('tie_repetition_first')
            if abs(now - old.t_in) <= self.tol_ns:
                self.mark('same_instant_events')
        self.nseq += 1
        self.prev = old
        if old is not None:
            old.superseded_at = now
            self.older = [old] + self.older[:3]
        self.cur = _Rec(self.nseq, data, now)

    def input_end(self, now, ok, exc=None):
        call, self.call = self.call, None
        if call is None:
            return
        if not ok:
            site = type(exc).__name__
            if isinstance(exc, TypeError) and call['collision'] and 'repeat' in str(exc):
                site += '/incoming-repeat-item'
            self.problem(f"forward/exception/{site}",
                         f"delivery of {call['etype']!r} raised {type(exc).__name__}: {exc}")
            return
        if call['match'] and call['forwards'] == 0:
            self.problem('forward/missing',
                         f"event #{self.cur.seq} of the repeated type was not re-sent immediately")

    # ---- outputs
    def _check_envelope(self, rec, etype, data, what):
        if etype != self.etype:
            self.problem('data/etype', f"{what}: sent as {etype!r}, configured type {self.etype!r}")
        if data.get('source') != self.name:
            self.problem('data/source',
                         f"{what}: source {data.get('source')!r}, expected the block's name {self.name!r}")
        if 'orig_source' not in data or data['orig_source'] != rec.src:
            self.problem('data/orig-source',
                         f"{what}: orig_source {data.get('orig_source', '<missing>')!r}, the event "
                         f"came from {rec.src!r}")

    def _fits(self, rec, now, items, number):
        """Would this be the next legal repetition of rec?"""
        if rec is None or rec.last_send is None:
            return False
        return (items == rec.items and number == rec.last_rep + 1
                and (self.count is None or number <= self.count)
                and now >= rec.last_send + self.interval_ns - self.tol_ns)

    def output(self, now, etype, data, sync):
        items = items_of(data)
        number = data.get('repeat', '<missing>')
        if isinstance(number, int) and not isinstance(number, bool):
            self.last_number = number
        if sync:
            call = self.call
            if call is None or not call['match']:
                self.problem('forward/foreign-type',
                             f"an event of type {call and call['etype']!r} (not the repeated type) "
                             "was forwarded")
                return
            call['forwards'] += 1
            rec = self.cur
            if call['forwards'] > 1:
                self.problem('forward/duplicate', f"event #{rec.seq} forwarded twice at once")
                return
            what = f"event #{rec.seq} (original)"
            if items != rec.items:
                self.problem('data/items', f"{what}: items {items}, received {rec.items}")
            if number != 0 or isinstance(number, bool):
                self.problem('repetition/number', f"{what}: repeat={number!r}, expected 0")
            self._check_envelope(rec, etype, data, what)
            rec.last_send = now
            rec.last_rep = 0
            self.n_forwards += 1
            return

        # ---- a delivery made outside of an input: must be a repetition
        cur = self.cur
        if cur is None:
            self.problem('repetition/unexpected',
                         f"sent {items} repeat={number!r} although no event was received yet")
            return
        if self._fits(cur, now, items, number):
            rec = cur
            what = f"event #{rec.seq} repetition {number}"
            late = now - self.due_ns(rec)
            if late > self.slack_ns:
                self.problem('repetition/late',
                             f"{what}: {late / 1e9:.9f}s after it was due "
                             f"(interval {self.interval_ns / 1e9}, allowed lateness "
                             f"{self.slack_ns / 1e9:.6f})")
            elif late > self.tol_ns:
                self.mark('late_repetition')
            self._check_envelope(rec, etype, data, what)
            rec.last_send = now
            rec.last_rep = number
            self.n_repetitions += 1
            if number == self.count:
                self.mark('count_reached')
            if number == 1 and self.prev is not None and self.prev.last_rep >= 1:
                self.mark('restart_numbering')
            if number >= 4 and self.count is None:
                self.mark('unlimited_long')
            return
        prev = self.prev
        for old in self.older:
            if (self._fits(old, now, items, number)
                    and now - old.superseded_at <= self.slack_ns + self.tol_ns):
                # the repetition of a replaced event, sent after the newer one was forwarded
                old.last_send = now
                old.last_rep = number
                self.problem('repetition/stale/newer-event-already-forwarded',
                             f"event #{old.seq} was re-sent (repeat={number}) "
                             f"{(now - old.superseded_at) / 1e9:.9f}s AFTER the newer event "
                             f"#{old.seq + 1} had been received and forwarded (repeat=0); the "
                             f"block must re-send the most recent event only "
                             f"(most recent now: #{cur.seq})")
                return
        # ---- diagnose against the current event
        what = f"event #{cur.seq}"
        if items != cur.items:
            older = prev is not None and items == prev.items
            self.problem('repetition/stale' if older else 'data/items',
                         f"{what}: repetition carries items {items}, the most recent event has "
                         f"{cur.items}" + (" (those of the replaced event)" if older else ''))
            return
        if cur.last_send is None:
            self.problem('repetition/unexpected', f"{what}: repeated before it was forwarded")
            return
        expected = cur.last_rep + 1
        if self.count is not None and expected > self.count and number == expected:
            self.problem('repetition/count-exceeded',
                         f"{what}: repetition {number} sent, count is {self.count}")
            cur.last_send = now
            cur.last_rep = number
            return
        if number != expected:
            self.problem('repetition/number',
                         f"{what}: repeat={number!r}, expected {expected} "
                         f"(numbering restarts with every newer event)")
            if isinstance(number, int) and not isinstance(number, bool):
                cur.last_rep = max(cur.last_rep, expected)
                cur.last_send = now
            return
        early = cur.last_send + self.interval_ns - now
        if early > self.tol_ns:
            self.problem('repetition/early',
                         f"{what}: repetition {number} sent {early / 1e9:.9f}s before the interval "
                         f"{self.interval_ns / 1e9} elapsed")
        cur.last_send = now
        cur.last_rep = number

    # ---- idle points
    def idle(self, now, where='idle point'):
        self._check_overdue(now, where)

    def drain(self):
        out, self.problems = self.problems, []
        return out

    def drain_marks(self):
        out, self.marks = self.marks, []
        return out


# ------------------------------------------------------------------ generator helper

def predict(chain, inputs, until_us, limit=400):
    """
    Ideal schedule (integer microseconds, no latency).

    chain   [(interval_us, count), ...] first element receives from the sender and sends
            to the second one, and so on
    inputs  [(t_us, idx), ...] events of the repeated type sent directly to chain[idx]
    returns per Repeat block the sorted list of its repetition instants up to until_us
    """
    n = len(chain)
    reps = [[] for _ in range(n)]
    gen = [0] * n
    sent = [0] * n
    heap = []
    order = 0
    for t, idx in inputs:
        if 0 <= idx < n:
            heap.append((int(t), 0, order, idx, 'in', 0))
            order += 1
    heapq.heapify(heap)
    steps = 0
    while heap and steps < limit:
        steps += 1
        t, _prio, _o, idx, kind, g = heapq.heappop(heap)
        if t > until_us:
            break
        interval, count = chain[idx]
        if kind == 'rep':
            if g != gen[idx]:
                continue
            sent[idx] += 1
            reps[idx].append(t)
            if count is None or sent[idx] < count:
                order += 1
                heapq.heappush(heap, (t + interval, 1, order, idx, 'rep', g))
        else:
            gen[idx] += 1
            sent[idx] = 0
            if count is None or count > 0:
                order += 1
                heapq.heappush(heap, (t + interval, 1, order, idx, 'rep', gen[idx]))
        if idx + 1 < n:
            order += 1
            heapq.heappush(heap, (t, 0, order, idx + 1, 'in', 0))
    return reps
