"""
Reference models of edzed.Input and edzed.InputExp, written from docs/sblocks1.rst ("Inputs"),
docs/blocks.rst ("Initialization rules") and the statement of property C17 - not from the code.

Validators are *tables* over JSON values (the check module builds the real callables from the
same tables, so model and code under test agree on what each validator answers; what is
verified is how the answers are combined):

  vspec = {'allowed': [values] | None,
           'check':  {'table': {key: retval}, 'default': retval} | None,
           'schema': {'table': {key: ['ret', value] | ['raise', excname]}, 'default': [...]} | None}

  accepted  <=>  (allowed is None or value among allowed)            "among" = Python ==
                 and (check is None or check(value) is true)
                 and (schema is None or schema(value) does not raise)
  result     =   schema(value) if schema is given else value

An Input holds the result of the last accepted put; a rejected put changes nothing. The
initial value comes from the restored persistent value (which passes through the same
validation), else from initdef, then from events arriving during initialisation.
An InputExp additionally replaces the value by the (validated) 'expired' value when the
duration after the last accepted put has elapsed; expirations are *consumed* from the
observation (monitor style): the model does not decide when the timer fires, it only knows
the earliest legal moment (an accepted value must last for its duration, also across a
restart) and that the value must not outlive its duration by more than the scheduling slack.
"""

from __future__ import annotations

import copy
import json


class _Undef:
    def __repr__(self):
        return '<UNDEF>'


UNDEF = _Undef()


def key(value) -> str:
    """Table key of a JSON value; distinguishes 1, 1.0 and true."""
    return json.dumps(value, sort_keys=True)


def unhashable(value) -> bool:
    try:
        hash(value)
    except TypeError:
        return True
    return False


class Validators:

    def __init__(self, vspec):
        self.allowed = vspec.get('allowed')
        self.check = vspec.get('check')
        self.schema = vspec.get('schema')

    def check_result(self, value):
        return self.check['table'].get(key(value), self.check['default'])

    def schema_entry(self, value):
        return self.schema['table'].get(key(value), self.schema['default'])

    def validate(self, value):
        """Return (accepted, result, rejecting validator or None)."""
        if self.allowed is not None and not any(value == a for a in self.allowed):
            return False, None, 'allowed'
        if self.check is not None and not self.check_result(value):
            return False, None, 'check'
        if self.schema is not None:
            kind, res = self.schema_entry(value)
            if kind == 'raise':
                return False, None, 'schema'
            return True, copy.deepcopy(res), None
        return True, copy.deepcopy(value), None

    def accepts(self, value) -> bool:
        return self.validate(value)[0]


class InputModel:

    def __init__(self, vspec, initdef=UNDEF):
        self.v = Validators(vspec)
        self.initdef = initdef
        # an initdef failing the validation is refused when the block is created
        self.refused = initdef is not UNDEF and not self.v.accepts(initdef)
        self.value = UNDEF

    def put(self, value):
        """Return (accepted, rejecting validator)."""
        ok, res, why = self.v.validate(value)
        if ok:
            self.value = res
        return ok, why

    def start(self, restored=UNDEF, init_events=()):
        """Initialisation; returns the list of (source, value, accepted)."""
        log = []
        if restored is not UNDEF:
            log.append(('restored', restored, self.put(restored)[0]))
        if self.value is UNDEF and self.initdef is not UNDEF:
            log.append(('initdef', self.initdef, self.put(self.initdef)[0]))
        for value in init_events:
            log.append(('event', value, self.put(value)[0]))
        return log

    def output(self):
        return self.value


class InputExpModel:
    """
    state in {'valid', 'expired'}.

    deadline: the earliest moment (monotonic time of the run) at which the value accepted last
    may be replaced by the expired value: time when the accepted put was *sent* + its
    duration; None = never (infinite duration) or nothing pending. An observed expiration
    before (deadline - tol) means an accepted value was dropped too early; the value is also
    not supposed to survive the deadline by more than the scheduling slack of the run.
    deadline_known is False while the model cannot tell (unjudged restore).
    """

    def __init__(self, vspec, duration, expired=None, initdef=UNDEF):
        self.v = Validators(vspec)
        self.duration = duration
        ok, self.expired_value, _ = self.v.validate(expired)
        self.refused_expired = not ok
        self.refused_initdef = False
        self.init_value = UNDEF
        if initdef is not UNDEF:
            ok, res, _ = self.v.validate(initdef)
            if ok:
                self.init_value = res
            else:
                self.refused_initdef = True
        self.refused = self.refused_expired or self.refused_initdef
        self.state = None
        self.value = UNDEF
        self.deadline = None        # None = no timer pending
        self.deadline_known = True
        self.tol = 2e-6

    def _arm(self, duration, now):
        """Enter 'valid' with the given duration; a zero duration expires immediately."""
        self.deadline_known = True
        self.tol = 2e-6
        if duration == 'inf' or duration == float('inf'):
            self.state, self.deadline = 'valid', None
        elif duration <= 0:
            self.state, self.deadline = 'expired', None
        else:
            self.state, self.deadline = 'valid', now + duration

    def start(self, now):
        """now = a moment not later than the start of the simulation."""
        if self.init_value is not UNDEF:
            self.value = copy.deepcopy(self.init_value)
            self._arm(self.duration, now)
        else:
            self.state, self.deadline = 'expired', None

    def restore(self, state, value, deadline, tol=1e-3):
        """
        Continue a saved state (round trip; no validation is demanded here). deadline is
        given on the clock of the new run; it went through two wall clock conversions,
        hence the coarser tolerance.
        """
        self.state = state
        self.value = value
        self.deadline = deadline if state == 'valid' else None
        self.deadline_known = True
        self.tol = tol

    def unknown_timer(self):
        """The model cannot tell when (whether) the current value expires."""
        self.deadline = None
        self.deadline_known = False

    def put(self, value, duration, now):
        """now = the moment the put was sent (not later than the start of its timer)."""
        ok, res, why = self.v.validate(value)
        if ok:
            self.value = res
            self._arm(self.duration if duration is None else duration, now)
        return ok, why

    def early(self, now) -> bool:
        """Would an expiration observed now drop the accepted value too early?"""
        if self.state != 'valid' or not self.deadline_known:
            return False
        return self.deadline is None or now < self.deadline - self.tol

    def overdue(self, now, slack) -> bool:
        return (self.state == 'valid' and self.deadline_known and self.deadline is not None
                and now > self.deadline + slack)

    def expire(self):
        self.state, self.deadline = 'expired', None
        self.deadline_known = True

    def output(self):
        return self.value if self.state == 'valid' else self.expired_value
