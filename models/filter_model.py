"""
Reference model of event filter pipelines, written from docs/events.rst ("Event filters"),
docs/filters.rst and the statement of property C16 (not from edzed/blocklib/filters.py).

A pipeline is a JSON list of filter specs:

  {'f': 'edge', 'rise': b, 'fall': b, 'u_rise': b|None|'omit', 'u_fall': b|'omit'}
  {'f': 'nfu'}                                    not_from_undef
  {'f': 'delta', 'delta': number}
  {'f': 'ifout', 'ctrl': name, ...}               IfOutput
  {'f': 'nii', 'ctrl': name}                      NotIfInitialized
  {'f': 'edit', 'ops': [[op, arg...], ...], ...}  DataEdit chain
  {'f': 'custom', 'kind': K, ...}                 scripted user filter, K in
        ret       {'val': v}              return a non-mapping constant
        newdict   {'add': {}, 'del': []}  return a new dict derived from the data
        same      {'add': {}, 'del': []}  mutate the data in place, return the same object
        inplace   {'add': {}, 'del': [], 'val': v}  mutate in place, return the non-mapping v
        userdict  {'add': {}, 'del': []}  return a non-dict MutableMapping (UserDict)
        proxy     {'add': {}, 'del': [], 'empty': b}  return a read-only Mapping
        replace   {'data': {}}            return an unrelated new dict
        badkey    {}                      return a dict with a non-string key
        raise     {}                      raise ValueError('boom')
        probe     {}                      pass (used by the check for observation)

DataEdit operations (docs/filters.rst):
  ['add', {k: v}] ['setdefault', {k: v}] ['copy', src, dst] ['rename', src, dst]
  ['delete', [k...]] ['permit', [k...]] ['modify', key, FUNC] ['add_output', key, block]
FUNC is the name of a scripted function, see FUNCS (shared with the check: it is user code).

Values: the JSON marker '<UNDEF>' stands for edzed.UNDEF; the model is parametrised with the
object that plays UNDEF so that model data and real data compare with ==.

The environment 'env' supplies the facts that are outside the model: env.output(name) is the
current output of a circuit block, env.initialized(name) its initialisation state.
"""

from __future__ import annotations

UNDEF_MARK = '<UNDEF>'


class DELETE:       # markers returned by scripted modify functions (mapped by the check
    pass            # to DataEdit.DELETE / DataEdit.REJECT for the real run)


class REJECT:
    pass


def _inc(x):
    return x + 1


def _raise(_x):
    raise ValueError('modify-func')


FUNCS = {
    'inc': _inc,                                    # TypeError for non-numbers
    'neg': lambda x: not x,
    'const': lambda x: 'K',
    'wrap': lambda x: [x],
    'delete': lambda x: DELETE,
    'reject': lambda x: REJECT,
    'reject_falsy': lambda x: x if x else REJECT,
    'delete_truthy': lambda x: DELETE if x else x,
    'raise': _raise,
}


def decode(value, undef):
    """JSON value -> value (the UNDEF marker is replaced, containers are copied)."""
    if value == UNDEF_MARK and isinstance(value, str):
        return undef
    if isinstance(value, list):
        return [decode(v, undef) for v in value]
    if isinstance(value, dict):
        return {k: decode(v, undef) for k, v in value.items()}
    return value


class Outcome:
    """Result of one delivery through a pipeline."""

    def __init__(self, kind, data=None, exc=None, at=None, consulted=0):
        self.kind = kind            # 'sent' | 'veto' | 'exc' | 'unspec' (no verdict)
        self.data = data            # dict received by the destination (kind 'sent')
        self.exc = exc              # (type name, args or None) (kind 'exc')
        self.at = at                # index of the vetoing / failing filter
        self.consulted = consulted  # number of filters that were called

    def __repr__(self):
        return f"Outcome({self.kind}, data={self.data}, exc={self.exc}, at={self.at})"


class _Veto(Exception):
    pass


class _Unspecified(Exception):
    """The documentation does not say what happens (missing required item ...)."""


class _Fail(Exception):
    def __init__(self, tname, args):
        super().__init__(tname)
        self.tname = tname
        self.eargs = args


class EdgeModel:
    """docs: rise allows False->True, fall True->False, u_rise UNDEF->True (default: same
    as rise), u_fall UNDEF->False; logical levels are compared; anything else is dropped."""

    def __init__(self, spec):
        self.rise = bool(spec.get('rise', False))
        self.fall = bool(spec.get('fall', False))
        u_rise = spec.get('u_rise', 'omit')
        if u_rise == 'omit' or u_rise is None:
            self.u_rise = self.rise
        else:
            self.u_rise = bool(u_rise)
        u_fall = spec.get('u_fall', 'omit')
        self.u_fall = False if u_fall == 'omit' else bool(u_fall)

    def passes(self, previous, value, undef):
        level = bool(value) and value is not undef
        if previous is undef:
            return self.u_rise if level else self.u_fall
        plevel = bool(previous)
        if not plevel and level:
            return self.rise
        if plevel and not level:
            return self.fall
        return False


class DeltaModel:
    """docs: compares the last accepted value (not the previous one) with the current
    value; |difference| smaller than delta -> filtered out. The first value is accepted."""

    def __init__(self, spec):
        self.delta = spec['delta']
        self.have = False
        self.last = None

    def passes(self, value):
        if not self.have or abs(self.last - value) >= self.delta:
            self.have = True
            self.last = value
            return True
        return False


def _edit(data, spec):
    """Scripted edit of custom filters: add then delete. Returns nothing (in place)."""
    for k, v in spec.get('add', {}).items():
        data[k] = v
    for k in spec.get('del', []):
        data.pop(k, None)


class PipelineModel:

    def __init__(self, specs, undef, env=None):
        self.specs = specs
        self.undef = undef
        self.env = env
        self.state = []
        for spec in specs:
            if spec['f'] == 'edge':
                self.state.append(EdgeModel(spec))
            elif spec['f'] == 'delta':
                self.state.append(DeltaModel(spec))
            else:
                self.state.append(None)

    # ---- one DataEdit chain: equivalent dictionary operations, left to right
    def _dataedit(self, data, ops):
        data = dict(data)
        for op in ops:
            name = op[0]
            if name == 'add':
                data.update(decode(op[1], self.undef))
            elif name == 'setdefault':
                for k, v in decode(op[1], self.undef).items():
                    data.setdefault(k, v)
            elif name == 'copy':
                if op[1] not in data:
                    raise _Fail('KeyError', (op[1],))
                data[op[2]] = data[op[1]]
            elif name == 'rename':
                if op[1] not in data:
                    raise _Fail('KeyError', (op[1],))
                data[op[2]] = data[op[1]]
                del data[op[1]]
            elif name == 'delete':
                for k in op[1]:
                    data.pop(k, None)
            elif name == 'permit':
                data = {k: v for k, v in data.items() if k in op[1]}
            elif name == 'modify':
                if op[1] not in data:
                    raise _Fail('KeyError', (op[1],))
                try:
                    repl = FUNCS[op[2]](data[op[1]])
                except Exception as err:    # pylint: disable=broad-except
                    raise _Fail(type(err).__name__, None) from None   # user code: type only
                if repl is REJECT:
                    raise _Veto()
                if repl is DELETE:
                    del data[op[1]]
                else:
                    data[op[1]] = repl
            elif name == 'add_output':
                data[op[1]] = self.env.output(op[2], None)
            else:
                raise ValueError(f"unknown DataEdit op {name}")
        return data

    def _apply(self, idx, spec, data):
        """Return the data for the next stage; raise _Veto / _Fail."""
        kind = spec['f']
        undef = self.undef
        if kind in ('edge', 'nfu', 'delta'):
            # the documentation requires these items; what happens without them is not
            # specified -> the model gives no verdict
            need = {'edge': ('value', 'previous'), 'nfu': ('previous',), 'delta': ('value',)}
            for key in need[kind]:
                if key not in data:
                    raise _Unspecified()
        if kind == 'edge':
            if not self.state[idx].passes(data['previous'], data['value'], undef):
                raise _Veto()
            return data
        if kind == 'nfu':
            if data['previous'] is undef:
                raise _Veto()
            return data
        if kind == 'delta':
            value = data['value']
            if isinstance(value, bool) or not isinstance(value, (int, float)):
                raise _Unspecified()        # "event filter for numeric values"
            if not self.state[idx].passes(value):
                raise _Veto()
            return data
        if kind == 'ifout':
            if not self.env.output(spec['ctrl'], spec):
                raise _Veto()
            return data
        if kind == 'nii':
            if self.env.initialized(spec['ctrl']):
                raise _Veto()
            return data
        if kind == 'edit':
            return self._dataedit(data, spec['ops'])
        if kind == 'custom':
            ck = spec['kind']
            if ck == 'probe':
                return data
            if ck == 'ret':
                if not decode(spec['val'], undef):
                    raise _Veto()
                return data
            if ck == 'raise':
                raise _Fail('ValueError', ('boom',))
            if ck == 'replace':
                return dict(decode(spec['data'], undef))
            if ck == 'badkey':
                # a MutableMapping with a non-string key: documented TypeError
                raise _Fail('TypeError', None)
            dspec = decode({'add': spec.get('add', {}), 'del': spec.get('del', [])}, undef)
            if ck in ('newdict', 'userdict'):
                new = dict(data)
                _edit(new, dspec)
                return new
            if ck == 'same':
                data = dict(data)
                _edit(data, dspec)
                return data
            if ck == 'inplace':
                # the filter edits the data in place ("filters may modify the event data
                # in-place") and its non-mapping result decides
                data = dict(data)
                _edit(data, dspec)
                if not decode(spec['val'], undef):
                    raise _Veto()
                return data
            if ck == 'proxy':
                # a read-only Mapping is not a MutableMapping: judged by its truth value
                # (docs/events.rst: "precisely a MutableMapping"); the data are not replaced
                if spec.get('empty'):
                    raise _Veto()
                return data
            raise ValueError(f"unknown custom kind {ck}")
        raise ValueError(f"unknown filter {kind}")

    def send(self, data, source):
        """
        One delivery: the data given to Event.send() by the block named 'source'.
        """
        data = dict(data)
        data['source'] = source
        consulted = 0
        for idx, spec in enumerate(self.specs):
            consulted += 1
            try:
                data = self._apply(idx, spec, data)
            except _Veto:
                return Outcome('veto', at=idx, consulted=consulted)
            except _Unspecified:
                return Outcome('unspec', at=idx, consulted=consulted)
            except _Fail as fail:
                return Outcome('exc', exc=(fail.tname, fail.eargs), at=idx, consulted=consulted)
            for key in data:
                if not isinstance(key, str):
                    return Outcome('exc', exc=('TypeError', None), at=idx, consulted=consulted)
        return Outcome('sent', data=data, consulted=consulted)
