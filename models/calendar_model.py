"""
Independent calendar predicate for TimeDate / TimeSpan (C07), written from
docs/sblocks1.rst ("TimeDate", "TimeSpan") and the property statement; integer
microsecond arithmetic, no use of edzed.blocklib.timeinterval.

Config (JSON):
  {'kind': 'td', 'utc': bool, 'times': None|[[[h,m,s,us],[h,m,s,us]],...],
   'dates': None|[[[m,d],[m,d]],...], 'weekdays': None|[0..7,...]}
  {'kind': 'ts', 'utc': bool, 'span': [[[Y,M,D,h,m,s,us],[Y,M,D,h,m,s,us]],...]}
"""

from __future__ import annotations

import datetime as dt

DAY_US = 86_400_000_000
EPOCH = dt.datetime(1970, 1, 1)


def tod_us(seq) -> int:
    h, m, s, us = (list(seq) + [0, 0, 0])[:4]
    return ((h * 60 + m) * 60 + s) * 1_000_000 + us


def abs_us(seq) -> int:
    y, mo, d, h, mi, s, us = (list(seq) + [0, 0])[:7]
    return int((dt.datetime(y, mo, d, h, mi, s, us) - EPOCH) / dt.timedelta(microseconds=1))


def to_dt(us: int) -> dt.datetime:
    return EPOCH + dt.timedelta(microseconds=us)


def in_times(tod: int, ranges) -> bool:
    """Left-closed, right-open; wraps around midnight when stop is not after start."""
    for start, stop in ranges:
        a, b = tod_us(start), tod_us(stop)
        if a < b:
            if a <= tod < b:
                return True
        elif tod >= a or tod < b:
            return True
    return False


def in_dates(md, ranges) -> bool:
    """Inclusive; wraps around the year end."""
    md = tuple(md)
    for start, stop in ranges:
        a, b = tuple(start), tuple(stop)
        if a <= b:
            if a <= md <= b:
                return True
        elif md >= a or md <= b:
            return True
    return False


def predicate(cfg, local_us: int) -> bool:
    """Expected output at the local (or UTC, for utc blocks) wall time local_us."""
    if cfg['kind'] == 'ts':
        return any(abs_us(a) <= local_us < abs_us(b) for a, b in cfg['span'])
    times, dates, weekdays = cfg.get('times'), cfg.get('dates'), cfg.get('weekdays')
    if times is None and dates is None and weekdays is None:
        return False
    now = to_dt(local_us)
    if times is not None and not in_times(local_us % DAY_US, times):
        return False
    if dates is not None and not in_dates((now.month, now.day), dates):
        return False
    if weekdays is not None:
        wd = {7 if x == 0 else x for x in weekdays}
        if now.isoweekday() not in wd:
            return False
    return True


def boundaries_tod(cfg):
    """Times of day (us) at which a TimeDate output may change."""
    out = {0}
    for rng in cfg.get('times') or []:
        for ep in rng:
            out.add(tod_us(ep))
    return out


def near_boundary(cfg, local_us: int, before_us: int, after_us: int) -> bool:
    """Is there an own boundary b with local_us in [b - before_us, b + after_us]?"""
    if cfg['kind'] == 'ts':
        for rng in cfg['span']:
            for ep in rng:
                b = abs_us(ep)
                if b - before_us <= local_us <= b + after_us:
                    return True
        return False
    tod = local_us % DAY_US
    for b in boundaries_tod(cfg):
        if (tod - b) % DAY_US <= after_us or (b - tod) % DAY_US <= before_us:
            return True
    return False


def next_boundaries(cfg, local_from: int, local_to: int):
    """All boundaries (local us) in [local_from, local_to]."""
    out = []
    if cfg['kind'] == 'ts':
        for rng in cfg['span']:
            for ep in rng:
                b = abs_us(ep)
                if local_from <= b <= local_to:
                    out.append(b)
        return sorted(set(out))
    day0 = local_from - local_from % DAY_US
    day = day0
    tods = sorted(boundaries_tod(cfg))
    while day <= local_to:
        for t in tods:
            b = day + t
            if local_from <= b <= local_to:
                out.append(b)
        day += DAY_US
    return out
