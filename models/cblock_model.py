"""
Reference model of edzed's combinational library blocks, written from docs/cblocks.rst,
docs/blocks.rst (CBlock.connect, Const) and the statement of property C01 (not from
edzed/blocklib/cblocks.py).

A block is described by its *kind* and *params*; its inputs by a dict

    {'_': (v0, v1, ...),            # the group of unnamed inputs, only if there are any
     'name': value,                 # single named input
     'grp': (v0, ...)}              # named group (may be empty)

legal_outputs(kind, params, inputs, prev) returns the list of outputs the documentation
allows for one evaluation (one element, except where the documentation leaves a choice).
'prev' is the output before the evaluation (UNDEF before the first one); only Compare
looks at it.

Kinds and their documented functions:

  Not       exactly one unnamed input; logical negation
  And       True only if all unnamed inputs are true
  Or        True only if at least one unnamed input is true
  Xor       True only if an odd number of unnamed inputs is true
  Override  named single inputs 'input' and 'override'; output = input when override is
            equal to null_value, else output = override
  Compare   one unnamed numeric input; True when value >= high, False when value < low,
            unchanged in between; started in between: True if closer to high, False if
            closer to low (exactly half-way: the documentation does not decide)
  Func      func(*unnamed, **named) with unpack, func(unnamed_tuple, **named) without;
            groups are passed as tuples
"""

from __future__ import annotations


class _Undef:
    def __repr__(self):
        return '<UNDEF>'

    def __bool__(self):
        return False


UNDEF = _Undef()


class ModelError(Exception):
    """The description cannot be evaluated (wrong shape of inputs)."""


def _unnamed(inputs):
    return tuple(inputs.get('_', ()))


def _only_unnamed(kind, inputs, exactly=None):
    if set(inputs) - {'_'}:
        raise ModelError(f"{kind} has unnamed inputs only")
    args = _unnamed(inputs)
    if exactly is not None and len(args) != exactly:
        raise ModelError(f"{kind} has exactly {exactly} unnamed input(s)")
    return args


def legal_outputs(kind, params, inputs, prev=UNDEF):
    """Return the list of legal outputs of one evaluation."""
    if kind == 'Not':
        (x,) = _only_unnamed(kind, inputs, 1)
        return [not x]
    if kind == 'And':
        args = _only_unnamed(kind, inputs)
        res = True
        for v in args:
            if not v:
                res = False
        return [res]
    if kind == 'Or':
        args = _only_unnamed(kind, inputs)
        res = False
        for v in args:
            if v:
                res = True
        return [res]
    if kind == 'Xor':
        args = _only_unnamed(kind, inputs)
        cnt = 0
        for v in args:
            if v:
                cnt += 1
        return [cnt % 2 == 1]
    if kind == 'Override':
        if set(inputs) != {'input', 'override'}:
            raise ModelError("Override has the single inputs 'input' and 'override'")
        ovr = inputs['override']
        if ovr == params.get('null_value'):
            return [inputs['input']]
        return [ovr]
    if kind == 'Compare':
        (x,) = _only_unnamed(kind, inputs, 1)
        low, high = params['low'], params['high']
        if x >= high:
            return [True]
        if x < low:
            return [False]
        # low <= x < high: the hysteresis zone
        if prev is UNDEF:
            d_high = high - x
            d_low = x - low
            if d_high < d_low:
                return [True]
            if d_low < d_high:
                return [False]
            return [True, False]
        return [bool(prev)]
    if kind == 'Func':
        func = params['func']
        kwargs = {k: v for k, v in inputs.items() if k != '_'}
        args = _unnamed(inputs)
        if params.get('unpack', True):
            return [func(*args, **kwargs)]
        return [func(args, **kwargs)]
    raise ModelError(f"unknown kind {kind}")


def is_legal(kind, params, inputs, prev, observed):
    """Python equality, as in the simulator's own change detection (DESIGN 3.3)."""
    for exp in legal_outputs(kind, params, inputs, prev):
        try:
            if exp == observed and (exp is not UNDEF):
                return True
        except Exception:   # pylint: disable=broad-except
            pass
    return False


def is_fixed_point(kind, params, inputs, output):
    """
    The idle condition of C01: the output equals the block's function applied to the
    current inputs. For Compare the function has the hidden second input 'own output':
    the output must be what an evaluation starting from that very output gives.
    """
    if output is UNDEF:
        return False
    return is_legal(kind, params, inputs, output, output)
