"""
Reference model of state persistence (property C06), written from the documentation
(docs/blocks.rst "Enabling persistent state", docs/new_sblocks.rst "Persistent state add-on",
docs/FSM.rst "FSM Initialization rules" and the description of FSM.get_state/sdata,
docs/sblocks1.rst, docs/sblocks2.rst) and from the property statement - not from edzed/addons.py.

Block descriptions (JSON, produced by checks/c06.py):
  common: {'kind', 'name', 'persistent', 'sync_state', 'expiration': None|number|str}
  input:    + 'initdef', 'check': bool
  counter:  + 'modulo': None|number, 'initdef': number
  gfsm:     + 'spec', 'inst'            (models/fsm_model.py vocabulary)
  timer:    + 'inst'
  inputexp: + 'inst'
  timedate/timespan: + 'cfg'            (models/calendar_model.py vocabulary)

What the model answers:
  restore_verdict()   may / must the stored entry be used at this restart?
  state_eq()          do two internal states denote the same state (timer deadline: same absolute
                      time within a tolerance)?
  output_of()         the output that corresponds to an internal state
  normal_init()       the result of the normal initialisation (no usable saved state)
"""

from __future__ import annotations

from models.fsm_model import FsmModel, TimerModel, InputExpModel, ModelError, UNDEF
from models import calendar_model as cal

FSM_KINDS = ('gfsm', 'timer', 'inputexp')
CAL_KINDS = ('timedate', 'timespan')
TS_TOL = 5e-5           # two UNIX timestamps near 1.7e9 that mean the same instant
EXP_STR = {'2s': 2.0, '1m': 60.0, '0.5s': 0.5, '1h': 3600.0}   # own table, not edzed's parser


def is_fsm(kind) -> bool:
    return kind in FSM_KINDS


def expiration_s(b):
    """Expiration setting in seconds or None (never expires)."""
    exp = b.get('expiration')
    if exp is None:
        return None
    if isinstance(exp, str):
        return EXP_STR[exp]
    return float(exp)


def split_fsm_state(value):
    """(state, timestamp, sdata) of a well-formed FSM state, else None."""
    if not isinstance(value, (list, tuple)) or len(value) != 3:
        return None
    state, ts, sdata = value
    if not isinstance(state, str) or not isinstance(sdata, dict):
        return None
    if ts is not None and (isinstance(ts, bool) or not isinstance(ts, (int, float))):
        return None
    return state, ts, sdata


def _ranges(lst):
    """Interval lists denote sets of ranges: order and duplicates do not matter."""
    if lst is None:
        return None
    out = []
    try:
        for a, b in sorted([list(a), list(b)] for a, b in lst):
            if [a, b] not in out:
                out.append([a, b])
    except (TypeError, ValueError):
        return lst
    return out


def cal_norm(kind, value):
    """Canonical form of a TimeDate / TimeSpan state."""
    if kind == 'timespan':
        return _ranges(value)
    if not isinstance(value, dict):
        return value
    return {'times': _ranges(value.get('times')), 'dates': _ranges(value.get('dates')),
            'weekdays': value.get('weekdays')}


def state_eq(kind, a, b, tol=TS_TOL) -> bool:
    """Same internal state? FSM timers are compared as absolute times."""
    if is_fsm(kind):
        sa, sb = split_fsm_state(a), split_fsm_state(b)
        if sa is None or sb is None:
            return a == b
        if sa[0] != sb[0] or sa[2] != sb[2]:
            return False
        if sa[1] is None or sb[1] is None:
            return sa[1] is None and sb[1] is None
        # (float resolution: a garbage timestamp like 1e12 cannot be held to 50 us)
        return abs(sa[1] - sb[1]) <= max(tol, 1e-14 * abs(sa[1]))
    if kind in CAL_KINDS:
        return cal_norm(kind, a) == cal_norm(kind, b)
    return a == b


def restore_verdict(b, present, value, stop_ts, now_lo, now_hi, band=1e-4):
    """
    Must the entry 'value' stored for block b be used by a start that initialises the block
    at a wall clock instant within [now_lo, now_hi]?

    Returns (allowed, reason, deadline): allowed is a subset of {'restore', 'init'} (both when
    the instant of the decision falls into the tolerance band), deadline the absolute expiration
    time of a restored FSM timer or None.

    Rules (documentation + property statement):
      - no entry, or persistence not enabled -> normal initialisation
      - expiration <= 0 -> the saved state is never used
      - expiration is "measured since the program stop": with a stop timestamp T in the storage
        the state is expired iff T + expiration < now; without a timestamp it cannot be checked
      - an FSM state whose timer ran out (deadline <= now) is discarded
    """
    if not b.get('persistent') or not present:
        return {'init'}, 'absent', None
    allowed = {'restore'}
    reason = 'usable'
    exp = expiration_s(b)
    if exp is not None:
        if exp <= 0.0:
            return {'init'}, 'expiration<=0', None
        if isinstance(stop_ts, float):
            limit = stop_ts + exp
            if limit < now_lo - band:
                return {'init'}, 'expired', None
            if limit < now_hi + band:
                allowed = {'restore', 'init'}
                reason = 'expiry-band'
        else:
            reason = 'no-timestamp'
    deadline = None
    if is_fsm(b['kind']):
        parts = split_fsm_state(value)
        if parts is not None and parts[1] is not None:
            deadline = float(parts[1])
            if deadline < now_lo - band:
                return {'init'}, 'timer-elapsed', None
            if deadline <= now_hi + band:
                allowed = {'restore', 'init'}
                reason = 'timer-band'
    return allowed, reason, deadline


def make_fsm_model(b, strdur):
    if b['kind'] == 'gfsm':
        return FsmModel(b['spec'], b['inst'], strdur)
    if b['kind'] == 'timer':
        return TimerModel(b['inst'], strdur)
    return InputExpModel(b['inst'], strdur)


def output_of(b, state, local_us=None):
    """
    The output corresponding to an internal state. Returns (known, output); for the calendar
    blocks the output depends on the wall clock (local_us, microseconds of local/UTC time).
    """
    kind = b['kind']
    if kind == 'input':
        return True, state
    if kind == 'counter':
        mod = b.get('modulo')
        return True, state if mod is None else state % mod
    if is_fsm(kind):
        parts = split_fsm_state(state)
        if parts is None:
            return False, None
        st, _ts, sdata = parts
        if kind == 'gfsm':
            return True, st
        if kind == 'timer':
            return True, st == 'on'
        if st == 'valid':
            if 'input' not in sdata:
                return False, None
            return True, sdata['input']
        return True, b['inst'].get('expired')
    if kind in CAL_KINDS:
        if local_us is None:
            return False, None
        cfg = state_cfg(b, state)
        if cfg is None:
            return False, None
        return True, cal.predicate(cfg, local_us)
    return False, None


def state_cfg(b, state):
    """calendar_model configuration equivalent to a TimeDate/TimeSpan internal state."""
    try:
        if b['kind'] == 'timespan':
            return {'kind': 'ts', 'utc': b['cfg']['utc'], 'span': [[list(x), list(y)] for x, y in state]}
        return {'kind': 'td', 'utc': b['cfg']['utc'], 'times': state.get('times'),
                'dates': state.get('dates'), 'weekdays': state.get('weekdays')}
    except (TypeError, ValueError, AttributeError, KeyError):
        return None


def cfg_state(b):
    """Internal state (canonical form) that the constructor arguments of a calendar block denote."""
    cfg = b['cfg']
    if b['kind'] == 'timespan':
        return cal_norm('timespan', [[(list(x) + [0, 0, 0, 0])[:7], (list(y) + [0, 0, 0, 0])[:7]]
                                     for x, y in cfg['span']])
    times = cfg.get('times')
    wd = cfg.get('weekdays')
    return cal_norm('timedate', {
        'times': None if times is None else [[(list(x) + [0, 0, 0])[:4], (list(y) + [0, 0, 0])[:4]]
                                             for x, y in times],
        'dates': None if cfg.get('dates') is None else [[list(x), list(y)] for x, y in cfg['dates']],
        'weekdays': None if wd is None else sorted({7 if x == 0 else x for x in wd}),
    })


def normal_init(b, strdur):
    """
    Result of the normal initialisation: dict with
      'state'   internal state without the timer part (FSM: (state, sdata))
      'output'  expected output ('?' = depends on the wall clock)
      'timer'   duration of the timer started by the initial state or None
      'enters'  number of entry actions (generated FSM) executed
      'error'   the model predicts that the initialisation fails
    """
    kind = b['kind']
    if kind == 'input':
        return {'state': b['initdef'], 'output': b['initdef'], 'timer': None, 'enters': 0}
    if kind == 'counter':
        mod = b.get('modulo')
        val = b['initdef'] if mod is None else b['initdef'] % mod
        return {'state': val, 'output': val, 'timer': None, 'enters': 0}
    if is_fsm(kind):
        model = make_fsm_model(b, strdur)
        init = model.inst.get('initdef') or model.states[0]
        try:
            model.event({'goto': init}, {})
        except ModelError as err:
            return {'error': err.kind}
        enters = [e for e in model.log if e[0] == 'enter' and e[1] == 'method']
        if kind == 'gfsm':
            sdata = {'n': len(enters), 'last': enters[-1][2]} if enters else {}
        elif kind == 'inputexp':
            sdata = {'input': b['inst']['init_value']} if 'init_value' in b['inst'] else {}
        else:
            sdata = {}
        out = model.output
        return {'state': (model.state, sdata), 'output': out,
                'timer': model.timer[0] if model.timer is not None else None,
                'enters': len(enters), 'undef': out == UNDEF}
    if kind in CAL_KINDS:
        return {'state': cfg_state(b), 'output': '?', 'timer': None, 'enters': 0}
    raise ValueError(f"unknown kind {kind}")


def apply_event(b, state, ev, data, strdur):
    """
    An FSM that is at rest in the internal state 'state' (as restored from the storage; any
    timer of that state is running) handles the event ev/data as a normal event. Returns
      {'error': kind}                      the model predicts that the handler fails, or
      {'accepted': False}                  rejected: nothing changes, the old timer keeps running
      {'accepted': True, 'state': (name, sdata), 'output', 'timer': duration|None, 'enters': n}
    The exit / entry actions of THIS transition do run (the block is initialised), the timer of
    the left state is cancelled and the new state's timer (if any) is started now.
    """
    parts = split_fsm_state(state)
    if parts is None or not is_fsm(b['kind']):
        return {'error': 'not-an-fsm-state'}
    name, _ts, sdata = parts
    model = make_fsm_model(b, strdur)
    if name not in model.states:
        return {'error': 'unknown-state'}
    model.state = name
    known, out = output_of(b, state)
    if not known:
        return {'error': 'output-unknown'}
    model.output = out
    model.has_timer = parts[1] is not None
    if b['kind'] == 'inputexp':
        model.value = sdata.get('input')
    try:
        accepted = model.event(ev, dict(data))
    except ModelError as err:
        return {'error': err.kind}
    if not accepted:
        return {'accepted': False}
    enters = [e for e in model.log if e[0] == 'enter' and e[1] == 'method']
    new_sdata = dict(sdata)
    if b['kind'] == 'gfsm' and enters:
        new_sdata['n'] = new_sdata.get('n', 0) + len(enters)
        new_sdata['last'] = enters[-1][2]
    elif b['kind'] == 'inputexp' and 'value' in data:
        new_sdata['input'] = data['value']
    return {'accepted': True, 'state': (model.state, new_sdata), 'output': model.output,
            'timer': model.timer[0] if model.timer is not None else None, 'enters': len(enters)}
